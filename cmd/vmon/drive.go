package main

import (
	"bufio"
	"encoding/json"
	"fmt"
	"os"
	"os/exec"
	"path/filepath"
	"sort"
	"strconv"
	"strings"
	"sync"
	"sync/atomic"
	"syscall"
	"time"

	"verif/checks"
	"verif/mon"
	"verif/ref"
)

const totalCPUs = 16

func root() string {
	if r := os.Getenv("VERIF_ROOT"); r != "" {
		return r
	}
	return "/verif"
}

func seedEnv() int64 {
	if s := os.Getenv("VERIF_SEED"); s != "" {
		if v, err := strconv.ParseInt(s, 10, 64); err == nil {
			return v
		}
	}
	return 1
}

// buildFlavour builds the child binary of a flavour from /repo's current tree.
func buildFlavour(fl, binDir string) (string, error) {
	out := filepath.Join(binDir, "vmon-"+fl)
	if fl == "plain" {
		if self, err := os.Executable(); err == nil {
			return self, nil
		}
	}
	args := []string{"build"}
	switch fl {
	case "plain":
		args = append(args, "-tags", "verif")
	case "race":
		args = append(args, "-tags", "verif", "-race")
	case "noadx":
		args = append(args, "-tags", "verif,noadx")
	case "amd64adx":
		// the build that selects the ADX-only assembly file at compile time (no run-time feature check, no fallback)
		args = append(args, "-tags", "verif,amd64_adx")
	case "386":
		// a 32-bit build: the portable (non-assembly) code of every package, 32-bit int and big.Word
		args = append(args, "-tags", "verif")
	default:
		return "", fmt.Errorf("unknown flavour %s", fl)
	}
	args = append(args, "-o", out, "./cmd/vmon")
	cmd := exec.Command("go", args...)
	cmd.Dir = root()
	if fl == "386" {
		cmd.Env = append(os.Environ(), "GOARCH=386", "CGO_ENABLED=0")
	}
	b, err := cmd.CombinedOutput()
	if err != nil {
		return "", fmt.Errorf("go %s: %v\n%s", strings.Join(args, " "), err, b)
	}
	return out, nil
}

type childRun struct {
	idx      int
	spec     checks.Child
	dir      string
	cpus     []int
	exit     int
	timedOut bool
	res      *mon.Result
	inflight string
	stdio    string
	races    int
	raceText string
	wall     float64
	skipped  bool
	hung     bool
}

type cpuAlloc struct {
	mu   sync.Mutex
	cond *sync.Cond
	free [totalCPUs]bool
}

func newAlloc() *cpuAlloc {
	a := &cpuAlloc{}
	a.cond = sync.NewCond(&a.mu)
	for i := range a.free {
		a.free[i] = true
	}
	return a
}

func (a *cpuAlloc) get(n int) []int {
	if n <= 0 || n > totalCPUs {
		n = totalCPUs
	}
	a.mu.Lock()
	defer a.mu.Unlock()
	for {
		var got []int
		for i := 0; i < totalCPUs && len(got) < n; i++ {
			if a.free[i] {
				got = append(got, i)
			}
		}
		if len(got) == n {
			for _, i := range got {
				a.free[i] = false
			}
			return got
		}
		a.cond.Wait()
	}
}

func (a *cpuAlloc) put(cpus []int) {
	a.mu.Lock()
	for _, i := range cpus {
		a.free[i] = true
	}
	a.mu.Unlock()
	a.cond.Broadcast()
}

func paramString(p map[string]string) string {
	var ks []string
	for k := range p {
		ks = append(ks, k)
	}
	sort.Strings(ks)
	var parts []string
	for _, k := range ks {
		parts = append(parts, k+"="+p[k])
	}
	return strings.Join(parts, ",")
}

func childParams(spec checks.Child, cpus int) map[string]string {
	p := map[string]string{}
	for k, v := range spec.Params {
		p[k] = v
	}
	p["flavour"] = spec.Flavour
	p["ncpu"] = strconv.Itoa(cpus)
	if spec.GOMAXPROCS > 0 {
		p["gomaxprocs"] = strconv.Itoa(spec.GOMAXPROCS)
	} else {
		p["gomaxprocs"] = strconv.Itoa(cpus)
	}
	return p
}

// abortAll is set once a child has hung inside a monitored call: the verdict is already "violated", so the
// remaining children (which would each run into the same watchdog) are skipped or killed.
var abortAll int32

// hostNotes are remarks about the host that end up in the evidence's configuration list.
var hostNotes []string

// caseLimit is the bounded-progress limit of one case for the check being driven.
var caseLimit time.Duration

func lastCaseInFlight(path string) string {
	f, err := os.Open(path)
	if err != nil {
		return ""
	}
	defer f.Close()
	sc := bufio.NewScanner(f)
	sc.Buffer(make([]byte, 1<<20), 1<<20)
	cur := ""
	for sc.Scan() {
		l := sc.Text()
		if strings.HasPrefix(l, "BEGIN ") {
			cur = l[6:]
		} else if strings.HasPrefix(l, "END ") {
			cur = ""
		}
	}
	return cur
}

func runChild(r *childRun, bin, id, tier string, seed int64, only string, inherit bool) {
	if atomic.LoadInt32(&abortAll) != 0 {
		r.skipped = true
		return
	}
	os.MkdirAll(r.dir, 0o755)
	ncpu := len(r.cpus)
	var cl []string
	for _, c := range r.cpus {
		cl = append(cl, strconv.Itoa(c))
	}
	to := r.spec.TimeoutS
	if to == 0 {
		to = 1500
		if tier == "thorough" {
			to = 7200
		}
	}
	args := []string{"-s", "QUIT", "-k", "20", strconv.Itoa(to), "taskset", "-c", strings.Join(cl, ","), bin, "child",
		"-check", id, "-tier", tier, "-seed", strconv.FormatInt(seed, 10),
		"-shard", strconv.Itoa(r.spec.Shard), "-nshards", strconv.Itoa(max1(r.spec.NShards)),
		"-out", r.dir, "-p", paramString(childParams(r.spec, ncpu))}
	if only != "" {
		args = append(args, "-only", only)
	}
	cmd := exec.Command("timeout", args...)
	cmd.Env = append(os.Environ(), "GOTRACEBACK=all")
	if r.spec.GOMAXPROCS > 0 {
		cmd.Env = append(cmd.Env, "GOMAXPROCS="+strconv.Itoa(r.spec.GOMAXPROCS))
	}
	if r.spec.Flavour == "race" {
		cmd.Env = append(cmd.Env, "GORACE=halt_on_error=0 log_path="+filepath.Join(r.dir, "race"))
	}
	logPath := filepath.Join(r.dir, "stdio.log")
	if inherit {
		cmd.Stdout, cmd.Stderr = os.Stdout, os.Stderr
	} else {
		f, _ := os.Create(logPath)
		defer f.Close()
		cmd.Stdout, cmd.Stderr = f, f
	}
	t0 := time.Now()
	err := cmd.Start()
	if err == nil {
		done := make(chan struct{})
		progressPath := filepath.Join(r.dir, fmt.Sprintf("progress-%d.log", r.spec.Shard))
		go func() {
			// Bounded progress is watched from OUTSIDE the child (a sleeping watchdog goroutine inside it would switch
			// off the Go runtime's "all goroutines are asleep" deadlock detector): when the progress log shows the same
			// case in flight for longer than the limit, the child gets SIGQUIT (goroutine dump) and the case is a hang.
			var lastSize int64 = -1
			lastChange := time.Now()
			for {
				select {
				case <-done:
					return
				case <-time.After(time.Second):
				}
				if atomic.LoadInt32(&abortAll) != 0 && cmd.Process != nil {
					r.skipped = true
					cmd.Process.Kill()
					return
				}
				if caseLimit <= 0 {
					continue
				}
				if st, err := os.Stat(progressPath); err == nil {
					if st.Size() != lastSize {
						lastSize, lastChange = st.Size(), time.Now()
					} else if time.Since(lastChange) > caseLimit && lastCaseInFlight(progressPath) != "" {
						r.hung = true
						cmd.Process.Signal(syscall.SIGQUIT)
						time.Sleep(3 * time.Second)
						cmd.Process.Kill()
						return
					}
				}
			}
		}()
		err = cmd.Wait()
		close(done)
	}
	r.wall = time.Since(t0).Seconds()
	if err != nil {
		if ee, ok := err.(*exec.ExitError); ok {
			r.exit = ee.ExitCode()
		} else {
			r.exit = -1
		}
	}
	r.timedOut = r.exit == 124 || r.exit == 137 || r.hung
	if b, err := os.ReadFile(filepath.Join(r.dir, fmt.Sprintf("result-%d.json", r.spec.Shard))); err == nil {
		var res mon.Result
		if json.Unmarshal(b, &res) == nil && res.Done {
			r.res = &res
		}
	}
	// in-flight case from the progress log
	if f, err := os.Open(filepath.Join(r.dir, fmt.Sprintf("progress-%d.log", r.spec.Shard))); err == nil {
		sc := bufio.NewScanner(f)
		sc.Buffer(make([]byte, 1<<20), 1<<20)
		cur := ""
		for sc.Scan() {
			l := sc.Text()
			if strings.HasPrefix(l, "BEGIN ") {
				cur = l[6:]
			} else if strings.HasPrefix(l, "END ") {
				cur = ""
			}
		}
		f.Close()
		r.inflight = cur
	}
	if r.timedOut && r.inflight != "" && r.res == nil && !r.skipped {
		atomic.StoreInt32(&abortAll, 1)
	}
	if b, err := os.ReadFile(logPath); err == nil {
		s := string(b)
		if len(s) > 6000 {
			s = s[:3000] + "\n...\n" + s[len(s)-3000:]
		}
		r.stdio = s
	}
	// race reports
	if r.spec.Flavour == "race" {
		m, _ := filepath.Glob(filepath.Join(r.dir, "race.*"))
		for _, p := range m {
			if b, err := os.ReadFile(p); err == nil {
				n := strings.Count(string(b), "WARNING: DATA RACE")
				r.races += n
				if n > 0 && r.raceText == "" {
					t := string(b)
					if len(t) > 5000 {
						t = t[:5000]
					}
					r.raceText = t
				}
			}
		}
	}
}

func max1(n int) int {
	if n < 1 {
		return 1
	}
	return n
}

type known struct{ property, sig, text string }

func loadKnown() []known {
	var out []known
	b, err := os.ReadFile(filepath.Join(root(), "KNOWN_FINDINGS.txt"))
	if err != nil {
		return nil
	}
	for _, l := range strings.Split(string(b), "\n") {
		l = strings.TrimSpace(l)
		if !strings.HasPrefix(l, "known:") {
			continue
		}
		f := strings.Fields(l[len("known:"):])
		k := known{text: strings.TrimSpace(l[len("known:"):])}
		for _, w := range f {
			if strings.HasPrefix(w, "property=") {
				k.property = w[len("property="):]
			}
			if strings.HasPrefix(w, "sig=") {
				k.sig = w[len("sig="):]
			}
		}
		if k.property != "" && k.sig != "" {
			out = append(out, k)
		}
	}
	return out
}

type replayFile struct {
	Violation mon.Violation `json:"violation"`
	Check     string        `json:"check"`
	Tier      string        `json:"tier"`
	Seed      int64         `json:"seed"`
	Child     checks.Child  `json:"child"`
	NCPU      int           `json:"ncpu"`
	Extra     string        `json:"extra,omitempty"`
	Command   string        `json:"command"`
}

func drive(id, tier string) int {
	t0 := time.Now()
	ck := checks.All[id]
	if ck == nil {
		fmt.Println("HARNESS-ERROR: unknown check", id)
		return 2
	}
	if tier != "quick" && tier != "thorough" {
		fmt.Println("HARNESS-ERROR: tier must be quick or thorough")
		return 2
	}
	seed := seedEnv()
	outDir := filepath.Join(root(), "out", id+"-"+tier)
	// keep bin (built by ./run), clean the rest
	if ents, err := os.ReadDir(outDir); err == nil {
		for _, e := range ents {
			if e.Name() != "bin" {
				os.RemoveAll(filepath.Join(outDir, e.Name()))
			}
		}
	}
	binDir := filepath.Join(outDir, "bin")
	os.MkdirAll(binDir, 0o755)

	if err := ref.SelfTest(tier == "thorough"); err != nil {
		fmt.Println("ORACLE-BROKEN:", err)
		return 2
	}

	// bounded progress: checks whose property promises termination use a tight (still generous) per-case limit, all
	// others a very generous one - a monitored call that has not returned after it is reported as a hang everywhere
	caseLimit = 600 * time.Second
	if ck.HangIsViolation {
		caseLimit = 150 * time.Second
	}
	if tier == "thorough" {
		caseLimit = 2400 * time.Second
		if ck.HangIsViolation {
			caseLimit = 1200 * time.Second
		}
	}
	if v := ck.CaseLimitS[tier]; v > 0 {
		caseLimit = time.Duration(v) * time.Second
	}
	plan := ck.Plan(tier)
	bins := map[string]string{}
	for _, ch := range plan {
		if _, ok := bins[ch.Flavour]; !ok {
			b, err := buildFlavour(ch.Flavour, binDir)
			if err != nil {
				fmt.Println("HARNESS-ERROR: build of flavour", ch.Flavour, "failed:", err)
				return 2
			}
			bins[ch.Flavour] = b
		}
	}
	// the 32-bit flavour is an extra: where 32-bit binaries cannot be executed its children are left out (and said so)
	if b, ok := bins["386"]; ok {
		if err := exec.Command(b, "list").Run(); err != nil {
			var kept []checks.Child
			for _, ch := range plan {
				if ch.Flavour != "386" {
					kept = append(kept, ch)
				}
			}
			plan = kept
			hostNotes = append(hostNotes, "flavour=386 children left out: 32-bit binaries cannot be executed on this host ("+err.Error()+")")
		}
	}

	alloc := newAlloc()
	runs := make([]*childRun, len(plan))
	var wg sync.WaitGroup
	// launch big children first so that the CPU allocator packs well
	order := make([]int, len(plan))
	for i := range order {
		order[i] = i
	}
	sort.SliceStable(order, func(a, b int) bool { return plan[order[a]].NCPU > plan[order[b]].NCPU })
	for _, i := range order {
		spec := plan[i]
		r := &childRun{idx: i, spec: spec, dir: filepath.Join(outDir, fmt.Sprintf("child-%03d", i))}
		runs[i] = r
		cpus := alloc.get(spec.NCPU)
		r.cpus = cpus
		wg.Add(1)
		go func() {
			defer wg.Done()
			defer alloc.put(cpus)
			runChild(r, bins[spec.Flavour], id, tier, seed, "", false)
		}()
	}
	wg.Wait()

	// ---- merge ----
	var viols []replayFile
	var inconclusive []string
	classes := map[string]int64{}
	counters := map[string]int64{}
	orders := map[string]map[string]bool{}
	var samples []interface{}
	var evals, trivial, cases int64
	var configs []string
	configs = append(configs, hostNotes...)
	digests := map[string]map[string][]string{} // case -> digest -> configs
	races := 0
	for _, r := range runs {
		cfgs := paramString(childParams(r.spec, len(r.cpus))) + fmt.Sprintf(",shard=%d/%d", r.spec.Shard, max1(r.spec.NShards))
		mk := func(v mon.Violation) replayFile {
			return replayFile{Violation: v, Check: id, Tier: tier, Seed: seed, Child: r.spec, NCPU: len(r.cpus)}
		}
		if r.res != nil {
			evals += r.res.Evals
			trivial += r.res.Trivial
			cases += r.res.Cases
			for k, v := range r.res.Classes {
				classes[k] += v
			}
			for k, v := range r.res.Counters {
				if strings.HasPrefix(k, "orders.") || k == "numcpu" || k == "gomaxprocs" {
					continue
				}
				counters[k] += v
			}
			for s, l := range r.res.Orders {
				if orders[s] == nil {
					orders[s] = map[string]bool{}
				}
				for _, o := range l {
					orders[s][o] = true
				}
			}
			if len(samples) < 6 && len(r.res.Samples) > 0 {
				samples = append(samples, r.res.Samples[0])
				if len(r.res.Samples) > 1 && len(samples) < 6 {
					samples = append(samples, r.res.Samples[len(r.res.Samples)-1])
				}
			}
			for _, v := range r.res.Violations {
				viols = append(viols, mk(v))
			}
			if int(r.res.NViol) > len(r.res.Violations) {
				counters["violations_not_listed"] += r.res.NViol - int64(len(r.res.Violations))
			}
			for k, d := range r.res.Digests {
				if digests[k] == nil {
					digests[k] = map[string][]string{}
				}
				digests[k][d] = append(digests[k][d], cfgs)
			}
			configs = append(configs, fmt.Sprintf("%s numcpu=%d gomaxprocs=%d evals=%d wall=%.1fs", cfgs, r.res.Counters["numcpu"], r.res.Counters["gomaxprocs"], r.res.Evals, r.wall))
		} else if r.skipped {
			configs = append(configs, cfgs+" skipped: another child had already hung inside a monitored call")
		} else {
			// the child died or was killed
			deadlock := strings.Contains(r.stdio, "all goroutines are asleep - deadlock")
			switch {
			case r.inflight != "" && deadlock:
				viols = append(viols, mk(mon.Violation{Property: id, Sig: "deadlock", Case: r.inflight,
					Msg: "Go runtime deadlock detector fired inside a monitored call", Detail: map[string]string{"stdio": r.stdio}, Config: childParams(r.spec, len(r.cpus))}))
			case r.inflight != "" && r.timedOut && (ck.HangIsViolation || r.hung):
				viols = append(viols, mk(mon.Violation{Property: id, Sig: "hang", Case: r.inflight,
					Msg: "watchdog fired while a monitored call was in flight (bounded-progress violation)", Detail: map[string]string{"stdio": r.stdio}, Config: childParams(r.spec, len(r.cpus))}))
			case r.inflight != "" && !r.timedOut:
				viols = append(viols, mk(mon.Violation{Property: id, Sig: "crash", Case: r.inflight,
					Msg: fmt.Sprintf("child process died (exit %d) inside a monitored call", r.exit), Detail: map[string]string{"stdio": r.stdio}, Config: childParams(r.spec, len(r.cpus))}))
			default:
				inconclusive = append(inconclusive, fmt.Sprintf("child %d (%s) produced no result (exit %d, timedOut=%v, inflight=%q); see %s", r.idx, cfgs, r.exit, r.timedOut, r.inflight, r.dir))
			}
		}
		if r.races > 0 {
			races += r.races
			viols = append(viols, mk(mon.Violation{Property: id, Sig: "data-race", Case: r.inflight,
				Msg: fmt.Sprintf("%d race detector report(s)", r.races), Detail: map[string]string{"report": r.raceText}, Config: childParams(r.spec, len(r.cpus))}))
		}
	}
	// cross-configuration digests
	var crossChecked int64
	for k, m := range digests {
		n := 0
		for _, c := range m {
			n += len(c)
		}
		if n > 1 {
			crossChecked++
		}
		if len(m) > 1 {
			viols = append(viols, replayFile{Violation: mon.Violation{Property: id, Sig: "config-dependent-output", Case: k,
				Msg: "the same case produced different outputs in different configurations / repetitions", Detail: m}, Check: id, Tier: tier, Seed: seed, Child: runs[0].spec, NCPU: len(runs[0].cpus)})
		}
	}
	if crossChecked > 0 {
		counters["cases_compared_across_configs"] = crossChecked
	}
	counters["race_reports"] += int64(races)

	// thresholds
	if n, ok := ck.MinEvals[tier]; ok && evals < n {
		inconclusive = append(inconclusive, fmt.Sprintf("only %d evaluations (minimum %d)", evals, n))
	}
	if n, ok := ck.MinClasses[tier]; ok && int64(len(classes)) < n {
		inconclusive = append(inconclusive, fmt.Sprintf("only %d distinct non-trivial classes (minimum %d)", len(classes), n))
	}
	for _, k := range ck.RequiredCounters {
		if counters[k] == 0 {
			inconclusive = append(inconclusive, "required observation counter "+k+" is zero")
		}
	}

	// known findings
	kn := loadKnown()
	var real []replayFile
	knownHit := map[string]bool{}
	for _, v := range viols {
		matched := false
		for _, k := range kn {
			if k.property == id && k.sig == v.Violation.Sig {
				matched = true
				if !knownHit[k.text] {
					knownHit[k.text] = true
					fmt.Printf("KNOWN-FINDING: %s\n", k.text)
				}
			}
		}
		if !matched {
			real = append(real, v)
		}
	}

	// evidence
	orderCounts := map[string]int{}
	orderSamples := map[string][]string{}
	for s, m := range orders {
		orderCounts[s] = len(m)
		for o := range m {
			if len(orderSamples[s]) < 3 {
				orderSamples[s] = append(orderSamples[s], o)
			}
		}
	}
	var classList []string
	for k := range classes {
		classList = append(classList, k)
	}
	sort.Strings(classList)
	if len(classList) > 60 {
		classList = classList[:60]
	}
	if samples == nil {
		samples = []interface{}{}
	}
	verdict := "held on everything observed"
	if len(real) > 0 {
		verdict = "violated"
	} else if len(inconclusive) > 0 {
		verdict = "inconclusive"
	}
	ev := map[string]interface{}{
		"property_id": id,
		"tier":        tier,
		"seed":        seed,
		"level":       "exploration",
		"coverage": map[string]interface{}{
			"evaluations":                           evals,
			"distinct_nontrivial":                   len(classes),
			"rule":                                  ck.Rule,
			"samples":                               samples,
			"trivial_evaluations":                   trivial,
			"cases":                                 cases,
			"class_examples":                        classList,
			"observation_counters":                  counters,
			"configurations":                        configs,
			"distinct_arrival_orders_per_hook_site": orderCounts,
			"arrival_order_examples":                orderSamples,
			"race_reports":                          races,
			"known_findings_hit":                    len(knownHit),
			"inconclusive_reasons":                  inconclusive,
			"verdict":                               verdict,
			"oracle_selftest":                       "passed (published vectors + two-path checks)",
		},
		"assumptions": ck.Assumptions,
		"wall_s":      time.Since(t0).Seconds(),
		"violations":  len(real),
	}
	if sp := ck.Exhaustive[tier]; sp != "" && len(real) == 0 && len(inconclusive) == 0 {
		cov := ev["coverage"].(map[string]interface{})
		cov["exhaustive"] = true
		cov["exhaustive_space"] = sp
	}
	os.MkdirAll(filepath.Join(root(), "evidence"), 0o755)
	{
		var buf strings.Builder
		enc := json.NewEncoder(&buf)
		enc.SetEscapeHTML(false)
		enc.SetIndent("", " ")
		if err := enc.Encode(ev); err == nil {
			os.WriteFile(filepath.Join(root(), "evidence", id+".json"), []byte(buf.String()), 0o644)
		}
	}

	fmt.Printf("%s %s seed=%d: %d evaluations, %d distinct non-trivial classes, %d children, %.1fs: %s\n", id, tier, seed, evals, len(classes), len(runs), time.Since(t0).Seconds(), verdict)
	if len(real) > 0 {
		seen := map[string]bool{}
		n := 0
		for _, v := range real {
			key := v.Violation.Sig + "|" + v.Violation.Case
			if seen[key] {
				continue
			}
			seen[key] = true
			n++
			if n > 12 {
				break
			}
			p := filepath.Join(outDir, fmt.Sprintf("violation-%d.json", n))
			v.Command = fmt.Sprintf("%s/run replay %s", root(), p)
			b, _ := json.MarshalIndent(v, "", " ")
			os.WriteFile(p, b, 0o644)
			fmt.Printf("VIOLATION property=%s replay=%s\n", id, p)
			fmt.Printf("  sig=%s case=%s: %s\n", v.Violation.Sig, v.Violation.Case, firstLine(v.Violation.Msg))
		}
		return 1
	}
	if len(inconclusive) > 0 {
		for _, s := range inconclusive {
			fmt.Println("INCONCLUSIVE:", s)
		}
		return 2
	}
	return 0
}

func firstLine(s string) string {
	if i := strings.IndexByte(s, '\n'); i >= 0 {
		s = s[:i]
	}
	if len(s) > 300 {
		s = s[:300]
	}
	return s
}

func replay(path string) int {
	b, err := os.ReadFile(path)
	if err != nil {
		fmt.Println("HARNESS-ERROR:", err)
		return 2
	}
	var rf replayFile
	if err := json.Unmarshal(b, &rf); err != nil {
		fmt.Println("HARNESS-ERROR:", err)
		return 2
	}
	dir, _ := os.MkdirTemp(filepath.Join(root(), "out"), "replay-")
	defer os.RemoveAll(dir)
	bin, err := buildFlavour(rf.Child.Flavour, dir)
	if err != nil {
		fmt.Println("HARNESS-ERROR:", err)
		return 2
	}
	n := rf.NCPU
	if n <= 0 {
		n = totalCPUs
	}
	cpus := make([]int, n)
	for i := range cpus {
		cpus[i] = i
	}
	r := &childRun{spec: rf.Child, dir: filepath.Join(dir, "child"), cpus: cpus}
	runChild(r, bin, rf.Check, rf.Tier, rf.Seed, rf.Violation.Case, true)
	if r.res != nil && r.res.NViol > 0 {
		for _, v := range r.res.Violations {
			fmt.Printf("REPRODUCED sig=%s case=%s: %s\n", v.Sig, v.Case, v.Msg)
		}
		return 1
	}
	if r.res == nil {
		fmt.Printf("child died again (exit %d)\n", r.exit)
		return 1
	}
	fmt.Println("not reproduced")
	return 0
}
