// vmon is the single binary of the framework:
//
//	vmon child  -check C01 -tier quick -seed 1 -shard 0 -nshards 4 -out DIR [-only CASE] [-p k=v,...]
//	vmon drive  C01 quick|thorough
//	vmon replay FILE
//	vmon selftest [full]
package main

import (
	"flag"
	"fmt"
	"os"
	"strings"

	"verif/checks"
	"verif/mon"
	"verif/ref"
)

func main() {
	if len(os.Args) < 2 {
		fmt.Fprintln(os.Stderr, "usage: vmon child|drive|replay|selftest ...")
		os.Exit(2)
	}
	switch os.Args[1] {
	case "child":
		child(os.Args[2:])
	case "drive":
		if len(os.Args) < 4 {
			fmt.Fprintln(os.Stderr, "usage: vmon drive <id> <tier>")
			os.Exit(2)
		}
		os.Exit(drive(os.Args[2], os.Args[3]))
	case "replay":
		if len(os.Args) < 3 {
			fmt.Fprintln(os.Stderr, "usage: vmon replay <file>")
			os.Exit(2)
		}
		os.Exit(replay(os.Args[2]))
	case "selftest":
		full := len(os.Args) > 2 && os.Args[2] == "full"
		if err := ref.SelfTest(full); err != nil {
			fmt.Println("ORACLE-BROKEN:", err)
			os.Exit(2)
		}
		fmt.Println("oracle self-test ok (full =", full, ")")
	case "list":
		for id := range checks.All {
			fmt.Println(id)
		}
	default:
		fmt.Fprintln(os.Stderr, "unknown subcommand", os.Args[1])
		os.Exit(2)
	}
}

func child(args []string) {
	fs := flag.NewFlagSet("child", flag.ExitOnError)
	id := fs.String("check", "", "property id")
	tier := fs.String("tier", "quick", "quick|thorough")
	seed := fs.Int64("seed", 1, "seed")
	shard := fs.Int("shard", 0, "shard")
	nshards := fs.Int("nshards", 1, "number of shards")
	out := fs.String("out", "", "output directory")
	only := fs.String("only", "", "run only this case id")
	params := fs.String("p", "", "k=v,k=v")
	fs.Parse(args)
	ck := checks.All[*id]
	if ck == nil {
		fmt.Fprintln(os.Stderr, "unknown check", *id)
		os.Exit(2)
	}
	cfg := map[string]string{}
	if *params != "" {
		for _, kv := range strings.Split(*params, ",") {
			if i := strings.IndexByte(kv, '='); i > 0 {
				cfg[kv[:i]] = kv[i+1:]
			}
		}
	}
	c := mon.NewCtx(*id, *tier, *seed, *shard, *nshards, *only, *out, cfg)
	checks.SetCtx(c)
	ck.Run(c)
	if err := c.Finish(); err != nil {
		fmt.Fprintln(os.Stderr, "cannot write result:", err)
		os.Exit(2)
	}
	if c.NViol() > 0 {
		os.Exit(1)
	}
}
