package ref

import "math/big"

// DomainSize is the size of the evaluation domain {0, ..., 255}.
const DomainSize = 256

// Interpolate returns the coefficients (low degree first) of the unique
// polynomial of degree < 256 with p(i) = evals[i] (plain Lagrange
// interpolation via the master polynomial; no barycentric tables).
func Interpolate(evals []*big.Int) []*big.Int {
	n := len(evals)
	// master polynomial A(X) = prod (X - i)
	A := []*big.Int{big.NewInt(1)}
	for i := 0; i < n; i++ {
		next := make([]*big.Int, len(A)+1)
		for k := range next {
			next[k] = new(big.Int)
		}
		mi := NegR(big.NewInt(int64(i)))
		for k, c := range A {
			next[k+1] = AddR(next[k+1], c)
			next[k] = AddR(next[k], MulR(c, mi))
		}
		A = next
	}
	out := make([]*big.Int, n)
	for k := range out {
		out[k] = new(big.Int)
	}
	for i := 0; i < n; i++ {
		if new(big.Int).Mod(evals[i], R).Sign() == 0 {
			continue
		}
		xi := big.NewInt(int64(i))
		// q = A / (X - i) by synthetic division
		q := make([]*big.Int, n)
		carry := new(big.Int)
		for k := n; k >= 1; k-- {
			carry = AddR(A[k], MulR(carry, xi))
			q[k-1] = carry
		}
		// A'(i) = q(i)
		den := EvalPoly(q, xi)
		scale := MulR(evals[i], InvR(den))
		for k := 0; k < n; k++ {
			out[k] = AddR(out[k], MulR(q[k], scale))
		}
	}
	return out
}

// EvalPoly evaluates a coefficient-form polynomial at z (Horner).
func EvalPoly(coeffs []*big.Int, z *big.Int) *big.Int {
	acc := new(big.Int)
	for k := len(coeffs) - 1; k >= 0; k-- {
		acc = AddR(MulR(acc, z), coeffs[k])
	}
	return acc
}

// DivLinear returns the coefficients of (p(X) - p(k)) / (X - k).
func DivLinear(coeffs []*big.Int, k *big.Int) []*big.Int {
	n := len(coeffs)
	q := make([]*big.Int, n-1)
	carry := new(big.Int)
	for i := n - 1; i >= 1; i-- {
		carry = AddR(coeffs[i], MulR(carry, k))
		q[i-1] = carry
	}
	return q
}

// EvalOnDomain evaluates a coefficient-form polynomial on 0..255.
func EvalOnDomain(coeffs []*big.Int) []*big.Int {
	out := make([]*big.Int, DomainSize)
	for i := range out {
		out[i] = EvalPoly(coeffs, big.NewInt(int64(i)))
	}
	return out
}

// QuotientCoeffForm computes DivideOnDomain(k, f) through coefficient form:
// interpolate, divide by (X-k), evaluate on the domain.
func QuotientCoeffForm(f []*big.Int, k int) []*big.Int {
	c := Interpolate(f)
	return EvalOnDomain(DivLinear(c, big.NewInt(int64(k))))
}

var weights, invWeights []*big.Int // A'(i), 1/A'(i) from the definition

// Weights returns A'(i) = prod_{j != i} (i - j) and the inverses.
func Weights() (w, wInv []*big.Int) {
	if weights == nil {
		ws := make([]*big.Int, DomainSize)
		wi := make([]*big.Int, DomainSize)
		for i := 0; i < DomainSize; i++ {
			acc := big.NewInt(1)
			for j := 0; j < DomainSize; j++ {
				if j != i {
					acc = MulR(acc, new(big.Int).Mod(big.NewInt(int64(i-j)), R))
				}
			}
			ws[i] = acc
			wi[i] = InvR(acc)
		}
		weights, invWeights = ws, wi
	}
	return weights, invWeights
}

// QuotientEvalForm computes (f(X) - f(k)) / (X - k) in evaluation form with
// the specification's formula: q_i = (f_i - f_k)/(i - k) for i != k and
// q_k = - sum_{i != k} A'(k)/A'(i) * q_i.
func QuotientEvalForm(f []*big.Int, k int) []*big.Int {
	w, wi := Weights()
	q := make([]*big.Int, DomainSize)
	qk := new(big.Int)
	for i := 0; i < DomainSize; i++ {
		if i == k {
			continue
		}
		d := new(big.Int).Mod(big.NewInt(int64(i-k)), R)
		q[i] = MulR(SubR(f[i], f[k]), InvR(d))
		qk = SubR(qk, MulR(MulR(w[k], wi[i]), q[i]))
	}
	q[k] = qk
	return q
}

// LagrangeAt returns L_i(z) for all i from the definition
// L_i(z) = prod_{j != i} (z - j)/(i - j); valid for every z (inside the
// domain it is the unit vector).
func LagrangeAt(z *big.Int) []*big.Int {
	z = new(big.Int).Mod(z, R)
	out := make([]*big.Int, DomainSize)
	if z.Cmp(big.NewInt(DomainSize)) < 0 {
		zi := int(z.Int64())
		for i := range out {
			out[i] = new(big.Int)
		}
		out[zi] = big.NewInt(1)
		return out
	}
	_, wi := Weights()
	// A(z) = prod (z - j)
	az := big.NewInt(1)
	for j := 0; j < DomainSize; j++ {
		az = MulR(az, SubR(z, big.NewInt(int64(j))))
	}
	for i := range out {
		out[i] = MulR(MulR(az, wi[i]), InvR(SubR(z, big.NewInt(int64(i)))))
	}
	return out
}

// InnerProd returns <a, b> mod r.
func InnerProd(a, b []*big.Int) *big.Int {
	if len(a) != len(b) {
		panic("ref: inner product length mismatch")
	}
	acc := new(big.Int)
	for i := range a {
		acc.Add(acc, new(big.Int).Mul(a[i], b[i]))
	}
	return acc.Mod(acc, R)
}
