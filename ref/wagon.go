package ref

import (
	"crypto/sha256"
	"encoding/binary"
	"errors"
	"math/big"
)

// Banderwagon: the quotient of the subgroup G x {O, (0,-1)} by {O, (0,-1)};
// an element is the class {(x,y), (-x,-y)}.

// ClassEqual reports whether p and q are the same Banderwagon element.
func ClassEqual(p, q Point) bool {
	// a triple with X = Y = 0 is not a point: never equal to anything
	if (p.X.Sign() == 0 && p.Y.Sign() == 0) || (q.X.Sign() == 0 && q.Y.Sign() == 0) {
		return false
	}
	// x1/y1 == x2/y2  (projective scaling cancels)
	return MulP(p.X, q.Y).Cmp(MulP(q.X, p.Y)) == 0
}

// ClassEqualAffine is ClassEqual on affine points.
func ClassEqualAffine(p, q Affine) bool {
	if (p.X.Sign() == 0 && p.Y.Sign() == 0) || (q.X.Sign() == 0 && q.Y.Sign() == 0) {
		return false
	}
	return MulP(p.X, q.Y).Cmp(MulP(q.X, p.Y)) == 0
}

// Serialize returns the canonical 32-byte encoding: x * sign(y), big-endian.
func Serialize(p Point) [32]byte { return SerializeAffine(p.Affine()) }

// SerializeAffine is Serialize for an affine point.
func SerializeAffine(a Affine) [32]byte {
	x := new(big.Int).Set(a.X)
	if !LargestP(a.Y) {
		x = NegP(x)
	}
	return BE32(x)
}

// YFromX returns the two roots ±y of the curve equation for x (largest first)
// or ok=false if x is not the x-coordinate of a curve point.
func YFromX(x *big.Int) (yLarge, ySmall *big.Int, ok bool) {
	x2 := MulP(x, x)
	num := SubP(MulP(CurveA, x2), one)
	den := SubP(MulP(CurveD, x2), one)
	y2 := MulP(num, InvP(den)) // d is a non-square so den != 0
	y := SqrtP(y2)
	if y == nil {
		return nil, nil, false
	}
	ny := NegP(y)
	if LargestP(y) {
		return y, ny, true
	}
	return ny, y, true
}

// SubgroupCheck is the Banderwagon membership test: 1 - a*x^2 is a non-zero square.
func SubgroupCheck(x *big.Int) bool {
	return IsSquareP(SubP(one, MulP(CurveA, MulP(x, x))))
}

var (
	ErrLength       = errors.New("ref: wrong length")
	ErrNonCanonical = errors.New("ref: non-canonical field element")
	ErrOffCurve     = errors.New("ref: not on curve")
	ErrSubgroup     = errors.New("ref: not in subgroup")
	ErrWrongY       = errors.New("ref: y is not the canonical root")
)

// Deserialize decodes a compressed element from untrusted bytes.
func Deserialize(b []byte) (Affine, error) {
	if len(b) != 32 {
		return Affine{}, ErrLength
	}
	x := FromBE(b)
	if x.Cmp(P) >= 0 {
		return Affine{}, ErrNonCanonical
	}
	y, _, ok := YFromX(x)
	if !ok {
		return Affine{}, ErrOffCurve
	}
	if !SubgroupCheck(x) {
		return Affine{}, ErrSubgroup
	}
	return Affine{x, y}, nil
}

// DeserializeUncompressed decodes the 64-byte form x||y from untrusted bytes:
// both canonical, y the lexicographically largest root, subgroup test.
func DeserializeUncompressed(b []byte) (Affine, error) {
	if len(b) != 64 {
		return Affine{}, ErrLength
	}
	x := FromBE(b[:32])
	yIn := FromBE(b[32:])
	if x.Cmp(P) >= 0 || yIn.Cmp(P) >= 0 {
		return Affine{}, ErrNonCanonical
	}
	y, _, ok := YFromX(x)
	if !ok {
		return Affine{}, ErrOffCurve
	}
	if y.Cmp(yIn) != 0 {
		return Affine{}, ErrWrongY
	}
	if !SubgroupCheck(x) {
		return Affine{}, ErrSubgroup
	}
	return Affine{x, y}, nil
}

// SerializeUncompressed returns x||y of the affine point as it is (no sign
// normalisation) - the "trusted" form.
func SerializeUncompressed(p Point) [64]byte {
	a := p.Affine()
	var out [64]byte
	xb, yb := BE32(a.X), BE32(a.Y)
	copy(out[:32], xb[:])
	copy(out[32:], yb[:])
	return out
}

// MapToScalarField returns (x/y mod p) mod r.
func MapToScalarField(p Point) *big.Int {
	v := MulP(p.X, InvP(p.Y))
	return v.Mod(v, R)
}

// CRS generates n basis points by hash-and-increment with the Verkle seed.
func CRS(n int) []Affine {
	seed := []byte("eth_verkle_oct_2021")
	var out []Affine
	for inc := uint64(0); len(out) < n; inc++ {
		h := sha256.New()
		h.Write(seed)
		var b [8]byte
		binary.BigEndian.PutUint64(b[:], inc)
		h.Write(b[:])
		x := new(big.Int).Mod(FromBE(h.Sum(nil)), P)
		xb := BE32(x)
		a, err := Deserialize(xb[:])
		if err != nil {
			continue
		}
		out = append(out, a)
	}
	return out
}
