package ref

import (
	"crypto/sha256"
	"math/big"
)

// Transcript is the Fiat-Shamir transcript of the specification: a byte
// string accumulator that is hashed on every challenge.
type Transcript struct{ pending []byte }

// NewTranscript starts a transcript with the protocol label.
func NewTranscript(label string) *Transcript {
	return &Transcript{pending: []byte(label)}
}

// Clone copies the transcript.
func (t *Transcript) Clone() *Transcript {
	return &Transcript{pending: append([]byte(nil), t.pending...)}
}

// DomainSep absorbs a bare label.
func (t *Transcript) DomainSep(label []byte) { t.pending = append(t.pending, label...) }

// AppendMessage absorbs label || message.
func (t *Transcript) AppendMessage(msg, label []byte) {
	t.pending = append(t.pending, label...)
	t.pending = append(t.pending, msg...)
}

// AppendScalar absorbs the 32-byte little-endian encoding of s mod r.
func (t *Transcript) AppendScalar(s *big.Int, label []byte) {
	b := LE32(new(big.Int).Mod(s, R))
	t.AppendMessage(b[:], label)
}

// AppendPoint absorbs the canonical encoding of a group element.
func (t *Transcript) AppendPoint(p Point, label []byte) {
	b := Serialize(p)
	t.AppendMessage(b[:], label)
}

// ChallengeScalar hashes everything absorbed since the last challenge
// (SHA-256), reads the digest little-endian, reduces it mod r, clears the
// state and re-absorbs the challenge under its label.
func (t *Transcript) ChallengeScalar(label []byte) *big.Int {
	t.DomainSep(label)
	d := sha256.Sum256(t.pending)
	c := FromLE(d[:])
	c.Mod(c, R)
	t.pending = t.pending[:0]
	t.AppendScalar(c, label)
	return c
}
