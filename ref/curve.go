package ref

import "math/big"

// Affine is a point of the Bandersnatch curve in affine coordinates.
type Affine struct{ X, Y *big.Int }

// Point is a point in extended twisted Edwards coordinates (X:Y:Z:T), T = XY/Z.
type Point struct{ X, Y, Z, T *big.Int }

// IdentityAffine is the neutral element (0, 1).
func IdentityAffine() Affine { return Affine{new(big.Int), big.NewInt(1)} }

// GeneratorAffine is the generator of the prime-order subgroup.
func GeneratorAffine() Affine { return Affine{new(big.Int).Set(GenX), new(big.Int).Set(GenY)} }

// OnCurve reports whether a*x^2 + y^2 == 1 + d*x^2*y^2.
func (p Affine) OnCurve() bool {
	x2 := MulP(p.X, p.X)
	y2 := MulP(p.Y, p.Y)
	l := AddP(MulP(CurveA, x2), y2)
	r := AddP(one, MulP(CurveD, MulP(x2, y2)))
	return l.Cmp(r) == 0
}

// AddAffine is the textbook twisted Edwards addition law.
func AddAffine(p, q Affine) Affine {
	x1y2 := MulP(p.X, q.Y)
	y1x2 := MulP(p.Y, q.X)
	y1y2 := MulP(p.Y, q.Y)
	x1x2 := MulP(p.X, q.X)
	dxy := MulP(CurveD, MulP(x1x2, y1y2))
	x3 := MulP(AddP(x1y2, y1x2), InvP(AddP(one, dxy)))
	y3 := MulP(SubP(y1y2, MulP(CurveA, x1x2)), InvP(SubP(one, dxy)))
	return Affine{x3, y3}
}

// NegAffine returns (-x, y).
func NegAffine(p Affine) Affine { return Affine{NegP(p.X), new(big.Int).Set(p.Y)} }

// MulAffine is plain double-and-add in affine coordinates (slow; used to
// cross-check the extended-coordinate implementation).
func MulAffine(p Affine, k *big.Int) Affine {
	k = new(big.Int).Mod(k, R)
	acc := IdentityAffine()
	for i := k.BitLen() - 1; i >= 0; i-- {
		acc = AddAffine(acc, acc)
		if k.Bit(i) == 1 {
			acc = AddAffine(acc, p)
		}
	}
	return acc
}

// FromAffine lifts an affine point.
func FromAffine(a Affine) Point {
	return Point{new(big.Int).Set(a.X), new(big.Int).Set(a.Y), big.NewInt(1), MulP(a.X, a.Y)}
}

// Identity is the neutral element.
func Identity() Point { return FromAffine(IdentityAffine()) }

// Generator is the subgroup generator.
func Generator() Point { return FromAffine(GeneratorAffine()) }

// Affine converts to affine coordinates.
func (p Point) Affine() Affine {
	zi := InvP(p.Z)
	return Affine{MulP(p.X, zi), MulP(p.Y, zi)}
}

// Add is the unified extended addition (add-2008-hwcd with general a).
func Add(p, q Point) Point {
	A := MulP(p.X, q.X)
	B := MulP(p.Y, q.Y)
	C := MulP(MulP(p.T, q.T), CurveD)
	D := MulP(p.Z, q.Z)
	E := SubP(SubP(MulP(AddP(p.X, p.Y), AddP(q.X, q.Y)), A), B)
	F := SubP(D, C)
	G := AddP(D, C)
	H := SubP(B, MulP(CurveA, A))
	return Point{MulP(E, F), MulP(G, H), MulP(F, G), MulP(E, H)}
}

// Double returns 2p.
func Double(p Point) Point { return Add(p, p) }

// Neg returns -p.
func Neg(p Point) Point {
	return Point{NegP(p.X), new(big.Int).Set(p.Y), new(big.Int).Set(p.Z), NegP(p.T)}
}

// Sub returns p-q.
func Sub(p, q Point) Point { return Add(p, Neg(q)) }

// Mul returns k*p for any integer k >= 0 (plain double-and-add, no reduction
// of k so that it is also valid for points outside the prime-order subgroup).
func Mul(p Point, k *big.Int) Point {
	if k.Sign() < 0 {
		panic("ref: negative scalar")
	}
	acc := Identity()
	for i := k.BitLen() - 1; i >= 0; i-- {
		acc = Double(acc)
		if k.Bit(i) == 1 {
			acc = Add(acc, p)
		}
	}
	return acc
}

// MSM returns sum k_i * p_i with shared doublings (Straus); scalars >= 0.
func MSM(ps []Point, ks []*big.Int) Point {
	if len(ps) != len(ks) {
		panic("ref: MSM length mismatch")
	}
	maxBits := 0
	for _, k := range ks {
		if k.Sign() < 0 {
			panic("ref: negative scalar")
		}
		if k.BitLen() > maxBits {
			maxBits = k.BitLen()
		}
	}
	acc := Identity()
	for i := maxBits - 1; i >= 0; i-- {
		acc = Double(acc)
		for j, k := range ks {
			if k.Bit(i) == 1 {
				acc = Add(acc, ps[j])
			}
		}
	}
	return acc
}

// EqualExact reports equality as curve points (not as Banderwagon classes).
func EqualExact(p, q Point) bool {
	return MulP(p.X, q.Z).Cmp(MulP(q.X, p.Z)) == 0 && MulP(p.Y, q.Z).Cmp(MulP(q.Y, p.Z)) == 0
}

// IsIdentityExact reports whether p is the curve's neutral element (0,1).
func IsIdentityExact(p Point) bool {
	return p.X.Sign() == 0 && p.Y.Cmp(p.Z) == 0 && p.Z.Sign() != 0
}
