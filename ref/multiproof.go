package ref

import (
	"errors"
	"math/big"
)

// MultiProof is D plus the IPA proof.
type MultiProof struct {
	D   Point
	IPA *IPAProof
}

// Bytes serialises D | IPA proof (576 bytes).
func (m *MultiProof) Bytes() []byte {
	d := Serialize(m.D)
	return append(d[:], m.IPA.Bytes()...)
}

// ProveMulti creates a multiproof for openings (C_i, f_i, z_i): straight
// from the specification, one quotient per opening, no grouping.
func (c *Config) ProveMulti(tr *Transcript, Cs []Point, fs [][]*big.Int, zs []int) *MultiProof {
	tr.DomainSep([]byte("multiproof"))
	n := len(Cs)
	for i := 0; i < n; i++ {
		tr.AppendPoint(Cs[i], []byte("C"))
		tr.AppendScalar(big.NewInt(int64(zs[i])), []byte("z"))
		tr.AppendScalar(fs[i][zs[i]], []byte("y"))
	}
	r := tr.ChallengeScalar([]byte("r"))
	g := make([]*big.Int, DomainSize)
	for j := range g {
		g[j] = new(big.Int)
	}
	rp := big.NewInt(1)
	pows := make([]*big.Int, n)
	for i := 0; i < n; i++ {
		pows[i] = rp
		q := QuotientEvalForm(fs[i], zs[i])
		for j := range g {
			g[j] = AddR(g[j], MulR(rp, q[j]))
		}
		rp = MulR(rp, r)
	}
	D := c.Commit(g)
	tr.AppendPoint(D, []byte("D"))
	t := tr.ChallengeScalar([]byte("t"))
	h := make([]*big.Int, DomainSize)
	for j := range h {
		h[j] = new(big.Int)
	}
	for i := 0; i < n; i++ {
		coef := MulR(pows[i], InvR(SubR(t, big.NewInt(int64(zs[i])))))
		for j := range h {
			h[j] = AddR(h[j], MulR(coef, fs[i][j]))
		}
	}
	E := c.Commit(h)
	tr.AppendPoint(E, []byte("E"))
	hg := make([]*big.Int, DomainSize)
	for j := range hg {
		hg[j] = SubR(h[j], g[j])
	}
	ipa, _ := c.ProveIPA(tr, Sub(E, D), hg, t)
	return &MultiProof{D: D, IPA: ipa}
}

// ErrStatement is returned for a statement of the wrong shape.
var ErrStatement = errors.New("ref: wrong statement shape")

// VerifyMulti checks a multiproof for (C_i, y_i, z_i).
func (c *Config) VerifyMulti(tr *Transcript, proof *MultiProof, Cs []Point, ys []*big.Int, zs []int, naive bool) (bool, error) {
	tr.DomainSep([]byte("multiproof"))
	n := len(Cs)
	if n == 0 || len(ys) != n || len(zs) != n {
		return false, ErrStatement
	}
	for i := 0; i < n; i++ {
		tr.AppendPoint(Cs[i], []byte("C"))
		tr.AppendScalar(big.NewInt(int64(zs[i])), []byte("z"))
		tr.AppendScalar(ys[i], []byte("y"))
	}
	r := tr.ChallengeScalar([]byte("r"))
	tr.AppendPoint(proof.D, []byte("D"))
	t := tr.ChallengeScalar([]byte("t"))
	g2 := new(big.Int)
	ks := make([]*big.Int, n)
	rp := big.NewInt(1)
	for i := 0; i < n; i++ {
		coef := MulR(rp, InvR(SubR(t, big.NewInt(int64(zs[i])))))
		ks[i] = coef
		g2 = AddR(g2, MulR(coef, ys[i]))
		rp = MulR(rp, r)
	}
	var E Point
	if n > 512 {
		// large statements open few distinct commitments many times: sum the coefficients per distinct point object
		// first (distributivity), then one scalar multiplication per distinct point
		idx := map[string]int{}
		var pts []Point
		var sums []*big.Int
		for i := 0; i < n; i++ {
			key := Cs[i].X.Text(62) + ":" + Cs[i].Y.Text(62) + ":" + Cs[i].Z.Text(62)
			j, ok := idx[key]
			if !ok {
				j = len(pts)
				idx[key] = j
				pts = append(pts, Cs[i])
				sums = append(sums, new(big.Int))
			}
			sums[j] = AddR(sums[j], ks[i])
		}
		E = MSM(pts, sums)
	} else {
		E = MSM(Cs, ks)
	}
	tr.AppendPoint(E, []byte("E"))
	return c.VerifyIPA(tr, Sub(E, proof.D), proof.IPA, t, g2, naive)
}
