package ref

import (
	"errors"
	"math/big"
)

// Config is the reference's public parameters: the 256 CRS points and Q.
type Config struct {
	SRS []Point
	Q   Point
}

var cfg *Config

// NewConfig returns the (cached) reference configuration.
func NewConfig() *Config {
	if cfg == nil {
		as := CRS(DomainSize)
		ps := make([]Point, len(as))
		for i, a := range as {
			ps[i] = FromAffine(a)
		}
		cfg = &Config{SRS: ps, Q: Generator()}
	}
	return cfg
}

// Commit returns sum v_i * G_i.
func (c *Config) Commit(v []*big.Int) Point {
	ks := make([]*big.Int, len(v))
	for i := range v {
		ks[i] = new(big.Int).Mod(v[i], R)
	}
	return MSM(c.SRS[:len(v)], ks)
}

// IPAProof is an inner product argument proof.
type IPAProof struct {
	L, R []Point
	A    *big.Int
}

// Bytes serialises L_1..L_8 | R_1..R_8 | a (little-endian).
func (p *IPAProof) Bytes() []byte {
	var out []byte
	for _, l := range p.L {
		b := Serialize(l)
		out = append(out, b[:]...)
	}
	for _, r := range p.R {
		b := Serialize(r)
		out = append(out, b[:]...)
	}
	a := LE32(p.A)
	return append(out, a[:]...)
}

func fold(l, r []*big.Int, x *big.Int) []*big.Int {
	out := make([]*big.Int, len(l))
	for i := range l {
		out[i] = AddR(l[i], MulR(x, r[i]))
	}
	return out
}

func foldPoints(l, r []Point, x *big.Int) []Point {
	out := make([]Point, len(l))
	for i := range l {
		out[i] = Add(l[i], Mul(r[i], x))
	}
	return out
}

// ProveIPA creates an opening proof for the committed evaluation-form
// polynomial a at the field point z. It returns the proof and p(z).
func (c *Config) ProveIPA(tr *Transcript, commitment Point, a []*big.Int, z *big.Int) (*IPAProof, *big.Int) {
	tr.DomainSep([]byte("ipa"))
	b := LagrangeAt(z)
	y := InnerProd(a, b)
	tr.AppendPoint(commitment, []byte("C"))
	tr.AppendScalar(z, []byte("input point"))
	tr.AppendScalar(y, []byte("output point"))
	w := tr.ChallengeScalar([]byte("w"))
	q := Mul(c.Q, w)

	G := c.SRS
	a = append([]*big.Int(nil), a...)
	proof := &IPAProof{}
	for len(a) > 1 {
		m := len(a) / 2
		aL, aR := a[:m], a[m:]
		bL, bR := b[:m], b[m:]
		GL, GR := G[:m], G[m:]
		zL := InnerProd(aR, bL)
		zR := InnerProd(aL, bR)
		L := Add(MSM(GL, aR), Mul(q, zL))
		Rp := Add(MSM(GR, aL), Mul(q, zR))
		proof.L = append(proof.L, L)
		proof.R = append(proof.R, Rp)
		tr.AppendPoint(L, []byte("L"))
		tr.AppendPoint(Rp, []byte("R"))
		x := tr.ChallengeScalar([]byte("x"))
		xi := InvR(x)
		a = fold(aL, aR, x)
		b = fold(bL, bR, xi)
		G = foldPoints(GL, GR, xi)
	}
	proof.A = a[0]
	return proof, y
}

// ErrShape is returned for a proof of the wrong shape.
var ErrShape = errors.New("ref: wrong proof shape")

// VerifyIPA checks an opening proof. With naive=true the basis and the b
// vector are folded round by round exactly as the prover does (no folding
// scalars); with naive=false one MSM over the challenge products is used.
func (c *Config) VerifyIPA(tr *Transcript, commitment Point, proof *IPAProof, z, y *big.Int, naive bool) (bool, error) {
	tr.DomainSep([]byte("ipa"))
	if len(proof.L) != len(proof.R) || len(proof.L) != 8 {
		return false, ErrShape
	}
	b := LagrangeAt(z)
	tr.AppendPoint(commitment, []byte("C"))
	tr.AppendScalar(z, []byte("input point"))
	tr.AppendScalar(y, []byte("output point"))
	w := tr.ChallengeScalar([]byte("w"))
	q := Mul(c.Q, w)
	cur := Add(commitment, Mul(q, new(big.Int).Mod(y, R)))

	xs := make([]*big.Int, 8)
	xis := make([]*big.Int, 8)
	for i := 0; i < 8; i++ {
		tr.AppendPoint(proof.L[i], []byte("L"))
		tr.AppendPoint(proof.R[i], []byte("R"))
		xs[i] = tr.ChallengeScalar([]byte("x"))
		xis[i] = InvR(xs[i])
		cur = Add(cur, Add(Mul(proof.L[i], xs[i]), Mul(proof.R[i], xis[i])))
	}
	a := new(big.Int).Mod(proof.A, R)
	var g0 Point
	var b0 *big.Int
	if naive {
		G := c.SRS
		for i := 0; i < 8; i++ {
			m := len(G) / 2
			G = foldPoints(G[:m], G[m:], xis[i])
			b = fold(b[:m], b[m:], xis[i])
		}
		g0, b0 = G[0], b[0]
	} else {
		s := make([]*big.Int, DomainSize)
		for i := range s {
			v := big.NewInt(1)
			for j := 0; j < 8; j++ {
				if i&(1<<(7-j)) != 0 {
					v = MulR(v, xis[j])
				}
			}
			s[i] = v
		}
		g0 = MSM(c.SRS, s)
		b0 = InnerProd(b, s)
	}
	got := Add(Mul(g0, a), Mul(q, MulR(a, b0)))
	return ClassEqual(got, cur) && !degenerate(got) && !degenerate(cur), nil
}

func degenerate(p Point) bool { return p.X.Sign() == 0 && p.Y.Sign() == 0 }
