// Package ref is an independent reference implementation of the Verkle
// cryptography used by go-ipa: Bandersnatch/Banderwagon, Pedersen commitments,
// the Fiat-Shamir transcript, barycentric polynomial arithmetic, the inner
// product argument and the multiproof. It is written from the specification
// with math/big and crypto/sha256 only and imports nothing from go-ipa or
// gnark-crypto, so it shares no code, table or data layout with the library
// it is used to monitor.
package ref

import "math/big"

func mustInt(s string, base int) *big.Int {
	v, ok := new(big.Int).SetString(s, base)
	if !ok {
		panic("ref: bad constant " + s)
	}
	return v
}

var (
	// P is the base field modulus (the BLS12-381 scalar field order).
	P = mustInt("52435875175126190479447740508185965837690552500527637822603658699938581184513", 10)
	// R is the prime order of the Bandersnatch subgroup = scalar field modulus.
	R = mustInt("13108968793781547619861935127046491459309155893440570251786403306729687672801", 10)
	// CurveA and CurveD: a*x^2 + y^2 = 1 + d*x^2*y^2.
	CurveA = new(big.Int).Sub(P, big.NewInt(5))
	CurveD = func() *big.Int {
		n := mustInt("138827208126141220649022263972958607803", 10)
		d := mustInt("171449701953573178309673572579671231137", 10)
		return new(big.Int).Mod(new(big.Int).Mul(n, new(big.Int).ModInverse(d, P)), P)
	}()
	// GenX, GenY: the generator of the prime order subgroup.
	GenX = mustInt("29c132cc2c0b34c5743711777bbe42f32b79c022ad998465e1e71866a252ae18", 16)
	GenY = mustInt("2a6c669eda123e0f157d8b50badcd586358cad81eee464605e3167b6cc974166", 16)

	halfP = new(big.Int).Rsh(new(big.Int).Sub(P, big.NewInt(1)), 1) // (p-1)/2
	one   = big.NewInt(1)
	zero  = big.NewInt(0)
)

// I returns a new big.Int with value v.
func I(v int64) *big.Int { return big.NewInt(v) }

func modP(x *big.Int) *big.Int { return x.Mod(x, P) }
func modR(x *big.Int) *big.Int { return x.Mod(x, R) }

// MulP returns a*b mod p.
func MulP(a, b *big.Int) *big.Int { return modP(new(big.Int).Mul(a, b)) }

// AddP returns a+b mod p.
func AddP(a, b *big.Int) *big.Int { return modP(new(big.Int).Add(a, b)) }

// SubP returns a-b mod p.
func SubP(a, b *big.Int) *big.Int { return modP(new(big.Int).Sub(a, b)) }

// NegP returns -a mod p.
func NegP(a *big.Int) *big.Int { return modP(new(big.Int).Neg(a)) }

// InvP returns a^-1 mod p (panics for 0).
func InvP(a *big.Int) *big.Int {
	v := new(big.Int).ModInverse(a, P)
	if v == nil {
		panic("ref: inverse of zero in Fp")
	}
	return v
}

// MulR returns a*b mod r.
func MulR(a, b *big.Int) *big.Int { return modR(new(big.Int).Mul(a, b)) }

// AddR returns a+b mod r.
func AddR(a, b *big.Int) *big.Int { return modR(new(big.Int).Add(a, b)) }

// SubR returns a-b mod r.
func SubR(a, b *big.Int) *big.Int { return modR(new(big.Int).Sub(a, b)) }

// NegR returns -a mod r.
func NegR(a *big.Int) *big.Int { return modR(new(big.Int).Neg(a)) }

// InvR returns a^-1 mod r, with 0 -> 0 (the library's convention).
func InvR(a *big.Int) *big.Int {
	if new(big.Int).Mod(a, R).Sign() == 0 {
		return new(big.Int)
	}
	return new(big.Int).ModInverse(a, R)
}

// IsSquareP reports whether a is a non-zero square mod p.
func IsSquareP(a *big.Int) bool {
	return big.Jacobi(new(big.Int).Mod(a, P), P) == 1
}

// SqrtP returns a square root of a mod p or nil if none exists.
func SqrtP(a *big.Int) *big.Int {
	a = new(big.Int).Mod(a, P)
	if a.Sign() == 0 {
		return new(big.Int)
	}
	if big.Jacobi(a, P) != 1 {
		return nil
	}
	return new(big.Int).ModSqrt(a, P)
}

// LargestP reports whether y > (p-1)/2 ("lexicographically largest").
func LargestP(y *big.Int) bool { return y.Cmp(halfP) > 0 }

// BE32 returns the 32-byte big-endian encoding of 0 <= v < 2^256.
func BE32(v *big.Int) [32]byte {
	var out [32]byte
	v.FillBytes(out[:])
	return out
}

// LE32 returns the 32-byte little-endian encoding of 0 <= v < 2^256.
func LE32(v *big.Int) [32]byte {
	be := BE32(v)
	var out [32]byte
	for i := range be {
		out[i] = be[31-i]
	}
	return out
}

// FromBE interprets b as a big-endian unsigned integer.
func FromBE(b []byte) *big.Int { return new(big.Int).SetBytes(b) }

// FromLE interprets b as a little-endian unsigned integer.
func FromLE(b []byte) *big.Int {
	r := make([]byte, len(b))
	for i := range b {
		r[len(b)-1-i] = b[i]
	}
	return new(big.Int).SetBytes(r)
}
