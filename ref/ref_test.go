package ref

import (
	"testing"
	"time"
)

func TestSelf(t *testing.T) {
	t0 := time.Now()
	if err := SelfTest(true); err != nil {
		t.Fatal(err)
	}
	t.Log("full self test", time.Since(t0))
}

func BenchmarkMul(b *testing.B) {
	g := Generator()
	k := mustInt("123456789abcdef0fedcba9876543210deadbeefcafebabe0123456789abcdef", 16)
	k.Mod(k, R)
	for i := 0; i < b.N; i++ {
		Mul(g, k)
	}
}
func BenchmarkDeser(b *testing.B) {
	x := Serialize(Generator())
	for i := 0; i < b.N; i++ {
		Deserialize(x[:])
	}
}
