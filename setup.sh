#!/bin/sh
# Build the framework from files on disk only and validate the oracle.
cd "$(dirname "$0")" || exit 2
exec ./run setup
