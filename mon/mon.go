// Package mon is the monitor runtime shared by all checks: the per-child
// context (case bracketing, recover, class counters, samples, violations),
// deterministic per-case randomness, and the result file a child hands to the
// driver.
package mon

import (
	"crypto/sha256"
	"encoding/binary"
	"encoding/json"
	"fmt"
	"math/rand"
	"os"
	"runtime"
	"runtime/debug"
	"sort"
	"strings"
	"sync"
	"time"
)

// Violation is one observed refutation of a property.
type Violation struct {
	Property string            `json:"property"`
	Sig      string            `json:"sig"`  // stable signature: call site / input class (matched against KNOWN_FINDINGS.txt)
	Case     string            `json:"case"` // case id, replayable with -only
	Msg      string            `json:"msg"`
	Detail   interface{}       `json:"detail,omitempty"`
	Config   map[string]string `json:"config,omitempty"`
}

// Result is what one child process reports.
type Result struct {
	Check      string              `json:"check"`
	Tier       string              `json:"tier"`
	Seed       int64               `json:"seed"`
	Shard      int                 `json:"shard"`
	NShards    int                 `json:"nshards"`
	Config     map[string]string   `json:"config"`
	Evals      int64               `json:"evals"`
	Classes    map[string]int64    `json:"classes"`           // non-trivial class signature -> hits
	Trivial    int64               `json:"trivial"`           // evaluations counted as trivial
	Counters   map[string]int64    `json:"counters"`          // named observation counters
	Orders     map[string][]string `json:"orders"`            // hook site -> distinct arrival orders seen (capped)
	Digests    map[string]string   `json:"digests,omitempty"` // case id -> output digest, compared across configurations by the driver
	Samples    []interface{}       `json:"samples"`
	Violations []Violation         `json:"violations"`
	NViol      int64               `json:"nviol"`
	Notes      []string            `json:"notes,omitempty"`
	Cases      int64               `json:"cases"`
	Done       bool                `json:"done"`
	WallS      float64             `json:"wall_s"`
}

// Ctx is the per-child monitor context.
type Ctx struct {
	Check   string
	Tier    string
	Seed    int64
	Shard   int
	NShards int
	Only    string // if set, run only this case id
	OutDir  string
	Config  map[string]string

	mu       sync.Mutex
	res      Result
	progress *os.File
	curCase  string
	caseSeq  int64
	caseT0   time.Time
	orderSet map[string]map[string]bool
	start    time.Time
}

// NewCtx creates the context and opens the progress log.
func NewCtx(check, tier string, seed int64, shard, nshards int, only, outDir string, config map[string]string) *Ctx {
	c := &Ctx{Check: check, Tier: tier, Seed: seed, Shard: shard, NShards: nshards, Only: only, OutDir: outDir, Config: config}
	c.res = Result{Check: check, Tier: tier, Seed: seed, Shard: shard, NShards: nshards, Config: config,
		Classes: map[string]int64{}, Counters: map[string]int64{}, Orders: map[string][]string{}, Digests: map[string]string{}}
	c.orderSet = map[string]map[string]bool{}
	c.start = time.Now()
	if outDir != "" {
		f, err := os.OpenFile(fmt.Sprintf("%s/progress-%d.log", outDir, shard), os.O_CREATE|os.O_WRONLY|os.O_TRUNC, 0o644)
		if err == nil {
			c.progress = f
		}
	}
	return c
}

// Thorough reports whether the tier is "thorough".
func (c *Ctx) Thorough() bool { return c.Tier == "thorough" }

// Pick returns q in the quick tier and t in the thorough tier.
func (c *Ctx) Pick(q, t int) int {
	if c.Thorough() {
		return t
	}
	return q
}

// Mine reports whether case number k belongs to this shard.
func (c *Ctx) Mine(k int) bool { return c.NShards <= 1 || k%c.NShards == c.Shard }

// Rand returns the PRNG of a case: a pure function of (seed, check, tier, id).
func (c *Ctx) Rand(id string) *rand.Rand {
	h := sha256.Sum256([]byte(fmt.Sprintf("%d|%s|%s|%s", c.Seed, c.Check, c.Tier, id)))
	return rand.New(rand.NewSource(int64(binary.LittleEndian.Uint64(h[:8]))))
}

// Case brackets one monitored case: BEGIN line before, recover around,
// END line after. A panic escaping f is recorded as a violation with
// signature "panic" (every monitored call is made with in-contract arguments
// unless the check handles panics itself).
func (c *Ctx) Case(id string, f func()) {
	if c.Only != "" && id != c.Only {
		return
	}
	c.mu.Lock()
	c.curCase = id
	c.res.Cases++
	c.caseSeq++
	c.caseT0 = time.Now()
	c.mu.Unlock()
	if c.progress != nil {
		fmt.Fprintf(c.progress, "BEGIN %s\n", id)
	}
	defer func() {
		c.mu.Lock()
		c.caseT0 = time.Time{}
		c.mu.Unlock()
	}()
	defer func() {
		if r := recover(); r != nil {
			st := string(debug.Stack())
			c.FailCase(id, "panic", fmt.Sprintf("panic: %v", r), map[string]string{"stack": trimStack(st)})
		}
		if c.progress != nil {
			fmt.Fprintf(c.progress, "END %s\n", id)
		}
	}()
	f()
}

// Setup runs a preparation step (creating the process's configuration, warming tables) as a monitored step: it is
// logged as in flight, so that a hang, deadlock or crash inside it is attributed to it by the driver, but it is not a
// case - it always runs, also when a single case is replayed. Inside a case it just runs f.
func (c *Ctx) Setup(id string, f func()) {
	c.mu.Lock()
	nested := c.curCase != "" && !c.caseT0.IsZero()
	if !nested {
		c.curCase = id
		c.caseT0 = time.Now()
	}
	c.mu.Unlock()
	if nested {
		f()
		return
	}
	if c.progress != nil {
		fmt.Fprintf(c.progress, "BEGIN %s\n", id)
	}
	defer func() {
		c.mu.Lock()
		c.caseT0 = time.Time{}
		c.mu.Unlock()
		if c.progress != nil {
			fmt.Fprintf(c.progress, "END %s\n", id)
		}
	}()
	f()
}

func trimStack(s string) string {
	lines := strings.Split(s, "\n")
	if len(lines) > 40 {
		lines = lines[:40]
	}
	return strings.Join(lines, "\n")
}

// Try runs f and returns the recovered panic value (nil if none) and stack.
func Try(f func()) (p interface{}, stack string) {
	defer func() {
		if r := recover(); r != nil {
			p = r
			stack = trimStack(string(debug.Stack()))
		}
	}()
	f()
	return nil, ""
}

// Eval counts one monitored evaluation in a class; trivial classes are
// counted separately and never contribute to distinct_nontrivial.
func (c *Ctx) Eval(class string, nontrivial bool) {
	c.mu.Lock()
	c.res.Evals++
	if nontrivial {
		c.res.Classes[class]++
	} else {
		c.res.Trivial++
	}
	c.mu.Unlock()
}

// EvalN counts n evaluations of one class at once.
func (c *Ctx) EvalN(class string, n int64, nontrivial bool) {
	c.mu.Lock()
	c.res.Evals += n
	if nontrivial {
		c.res.Classes[class] += n
	} else {
		c.res.Trivial += n
	}
	c.mu.Unlock()
}

// Count adds to a named observation counter.
func (c *Ctx) Count(name string, n int64) {
	c.mu.Lock()
	c.res.Counters[name] += n
	c.mu.Unlock()
}

// Sample records an actual case for the evidence (first few only).
func (c *Ctx) Sample(v interface{}) {
	c.mu.Lock()
	if len(c.res.Samples) < 4 {
		c.res.Samples = append(c.res.Samples, v)
	}
	c.mu.Unlock()
}

// Digest records the output digest of a case for cross-configuration comparison.
func (c *Ctx) Digest(id, digest string) {
	c.mu.Lock()
	c.res.Digests[id] = digest
	c.mu.Unlock()
}

// Note records a free-text observation.
func (c *Ctx) Note(s string) {
	c.mu.Lock()
	if len(c.res.Notes) < 20 {
		c.res.Notes = append(c.res.Notes, s)
	}
	c.mu.Unlock()
}

// Order records an arrival order observed at a hook site.
func (c *Ctx) Order(site, order string) {
	c.mu.Lock()
	defer c.mu.Unlock()
	m := c.orderSet[site]
	if m == nil {
		m = map[string]bool{}
		c.orderSet[site] = m
	}
	if !m[order] && len(m) < 4096 {
		m[order] = true
	}
}

// Fail records a violation for the current case.
func (c *Ctx) Fail(sig, msg string, detail interface{}) {
	c.mu.Lock()
	id := c.curCase
	c.mu.Unlock()
	c.FailCase(id, sig, msg, detail)
}

// FailCase records a violation for an explicit case id.
func (c *Ctx) FailCase(id, sig, msg string, detail interface{}) {
	sig = strings.ReplaceAll(sig, " ", "-")
	c.mu.Lock()
	defer c.mu.Unlock()
	c.res.NViol++
	if len(c.res.Violations) < 40 {
		c.res.Violations = append(c.res.Violations, Violation{Property: c.Check, Sig: sig, Case: id, Msg: msg, Detail: detail, Config: c.Config})
	}
	if c.progress != nil {
		fmt.Fprintf(c.progress, "VIOL %s %s %s\n", id, sig, msg)
	}
}

// Failf is Fail with formatting and no detail.
func (c *Ctx) Failf(sig, format string, a ...interface{}) {
	c.Fail(sig, fmt.Sprintf(format, a...), nil)
}

// Finish writes the result file.
func (c *Ctx) Finish() error {
	c.mu.Lock()
	defer c.mu.Unlock()
	c.res.Done = true
	c.res.WallS = time.Since(c.start).Seconds()
	for site, m := range c.orderSet {
		var l []string
		for o := range m {
			l = append(l, o)
		}
		sort.Strings(l)
		c.res.Counters["orders."+site] = int64(len(l))
		if len(l) > 12 {
			l = l[:12]
		}
		c.res.Orders[site] = l
	}
	c.res.Counters["numcpu"] = int64(runtime.NumCPU())
	c.res.Counters["gomaxprocs"] = int64(runtime.GOMAXPROCS(0))
	if c.OutDir == "" {
		b, _ := json.MarshalIndent(c.res, "", " ")
		fmt.Println(string(b))
		return nil
	}
	b, err := json.Marshal(c.res)
	if err != nil {
		return err
	}
	tmp := fmt.Sprintf("%s/result-%d.json.tmp", c.OutDir, c.Shard)
	if err := os.WriteFile(tmp, b, 0o644); err != nil {
		return err
	}
	return os.Rename(tmp, fmt.Sprintf("%s/result-%d.json", c.OutDir, c.Shard))
}

// NViol returns the number of violations so far.
func (c *Ctx) NViol() int64 {
	c.mu.Lock()
	defer c.mu.Unlock()
	return c.res.NViol
}
