package mon

import (
	"fmt"
	"runtime"
	"strings"
	"sync"
	"sync/atomic"
	"time"

	"github.com/crate-crypto/go-ipa/common/verifhook"
)

// Sched is the H7 callback: it records which worker reached which fan-in /
// fan-out point in which order, and perturbs the schedule by delaying a
// worker for a seed-determined short time. The hook points are existing
// suspension points (before a channel send, at goroutine start), so a delay
// there cannot create an interleaving the program could not have by itself.
type Sched struct {
	mu      sync.Mutex
	arrive  map[string][]int
	mode    int32 // 0 = observe only, 1 = yield, 2 = yield or sleep
	seed    uint64
	counter uint64
	Calls   int64
}

var sched = &Sched{arrive: map[string][]int{}}

// InstallSched installs the callback. mode: 0 observe, 1 gosched, 2 delays.
func InstallSched(mode int, seed int64) {
	atomic.StoreInt32(&sched.mode, int32(mode))
	sched.seed = uint64(seed)*0x9E3779B97F4A7C15 + 12345
	verifhook.Set(func(site string, idx int) { sched.point(site, idx) })
}

// SchedMode changes the perturbation mode.
func SchedMode(mode int) { atomic.StoreInt32(&sched.mode, int32(mode)) }

// SchedReseed changes the perturbation seed (e.g. per case).
func SchedReseed(seed uint64) {
	sched.mu.Lock()
	sched.seed = seed*0x9E3779B97F4A7C15 + 777
	sched.counter = 0
	sched.mu.Unlock()
}

func (s *Sched) point(site string, idx int) {
	atomic.AddInt64(&s.Calls, 1)
	mode := atomic.LoadInt32(&s.mode)
	if mode != 0 {
		n := atomic.AddUint64(&s.counter, 1)
		h := (s.seed ^ uint64(idx+1)*0xBF58476D1CE4E5B9 ^ n*0x94D049BB133111EB)
		h ^= h >> 29
		h *= 0xD6E8FEB86659FD93
		h ^= h >> 32
		switch {
		case h%8 < 3:
		case h%8 < 7 || mode == 1:
			runtime.Gosched()
		default:
			time.Sleep(time.Duration(20+(h>>8)%400) * time.Microsecond)
		}
	}
	s.mu.Lock()
	if len(s.arrive[site]) < 4096 {
		s.arrive[site] = append(s.arrive[site], idx)
	}
	s.mu.Unlock()
}

// SchedTake returns and clears the arrival sequences recorded since the last
// call, as "site" -> "i,j,k".
func SchedTake() map[string]string {
	sched.mu.Lock()
	defer sched.mu.Unlock()
	out := map[string]string{}
	for site, l := range sched.arrive {
		if len(l) == 0 {
			continue
		}
		var sb strings.Builder
		for i, v := range l {
			if i > 0 {
				sb.WriteByte(',')
			}
			fmt.Fprintf(&sb, "%d", v)
		}
		out[site] = sb.String()
	}
	sched.arrive = map[string][]int{}
	return out
}

// SchedCalls returns the total number of hook invocations.
func SchedCalls() int64 { return atomic.LoadInt64(&sched.Calls) }

// RecordOrders takes the arrival sequences and stores, per site, the distinct
// orders (only sequences of bounded length are kept as "orders").
func (c *Ctx) RecordOrders(sites ...string) {
	m := SchedTake()
	for site, o := range m {
		keep := len(sites) == 0
		for _, s := range sites {
			if s == site {
				keep = true
			}
		}
		if keep && len(o) < 200 {
			c.Order(site, o)
		}
		c.Count("hook."+site, 1)
	}
}
