module verif

go 1.18

require (
	github.com/consensys/gnark-crypto v0.13.0
	github.com/crate-crypto/go-ipa v0.0.0
)

require (
	github.com/bits-and-blooms/bitset v1.7.0 // indirect
	github.com/consensys/bavard v0.1.13 // indirect
	github.com/mmcloughlin/addchain v0.4.0 // indirect
	golang.org/x/sync v0.1.0 // indirect
	golang.org/x/sys v0.15.0 // indirect
	rsc.io/tmplfunc v0.0.3 // indirect
)

replace github.com/crate-crypto/go-ipa => /tmp/repo-dev
