module verif

go 1.18

require github.com/crate-crypto/go-ipa v0.0.0

replace github.com/crate-crypto/go-ipa => /repo
