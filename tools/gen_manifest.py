#!/usr/bin/env python3
"""Regenerates MANIFEST.json from the list of implemented checks (tools/checks.json)."""
import json, os
root = os.path.dirname(os.path.dirname(os.path.abspath(__file__)))
impl = json.load(open(os.path.join(root, "tools", "checks.json")))
props = [json.loads(l) for l in open(os.path.join(root, "properties.jsonl"))]
checks, na = [], []
for p in props:
    i = impl.get(p["id"])
    if not i:
        na.append({"property_id": p["id"], "reason": "monitor not built yet (see DESIGN.md section 5 for the planned runtime monitor)"})
        continue
    checks.append({
        "property_id": p["id"],
        "quick_cmd": "./run %s quick" % p["id"],
        "thorough_cmd": "./run %s thorough" % p["id"],
        "evidence_file": "/verif/evidence/%s.json" % p["id"],
        "replay_cmd_template": "./run replay {path}",
        "engine": "vmon",
        "level_claimed": {"category": "exploration", "text": i["text"], "design_ref": "DESIGN.md section 5, " + p["id"]},
        "level_note": i["note"],
        "technique": i["technique"],
    })
m = {
    "version": 1,
    "setup_cmd": "./setup.sh",
    "hooks": {
        "guard": "verif",
        "enable": "go build -tags verif (harness module /verif with `replace github.com/crate-crypto/go-ipa => /repo`); flavours: -race, -tags verif,noadx, -tags verif,amd64_adx, GOARCH=386",
        "baseline_off_cmd": "cd /repo && GOFLAGS=-mod=mod GOPROXY=off GOSUMDB=off GOTOOLCHAIN=local go test -vet=off -count=1 -timeout 25m ./...",
        "source_commits": ["57366c4", "a4f5fcf", "248af53"],
        "add_only": True,
    },
    "engines": [{"name": "vmon", "path": "/verif/cmd/vmon", "serves_properties": sorted(impl.keys()),
                 "kind_free_text": "runtime monitoring: driver spawning child processes of the real code (plain / race detector / noadx / 32-bit (GOARCH=386) builds, taskset CPU counts, GOMAXPROCS, schedule-perturbation hooks) with reference-model oracles (independent big.Int implementation in /verif/ref), trace monitors, fingerprints, read-only memory pages as a hardware write monitor, and the Go race/deadlock detectors"}],
    "checks": checks,
    "not_applicable": na,
    "notes": "exit 0 held / 1 violation / 2 harness error or inconclusive. VERIF_SEED selects the seed. Genuine defects repaired by fix: commits are listed in KNOWN_FINDINGS.txt.",
}
json.dump(m, open(os.path.join(root, "MANIFEST.json"), "w"), indent=1)
print("checks:", len(checks), "not_applicable:", len(na))
