#!/bin/sh
# Cross matrix: every seeded change against a list of quick checks, on a private copy of the repository
# (vp run --with-repo: $VP_RUN_REPO), so that /repo itself stays untouched.
# usage: tools/matrix.sh "<checks>" [seeded dirs...]      output: out/matrix.txt
R=${VP_RUN_REPO:?need VP_RUN_REPO (use vp run --with-repo)}
ROOT=$(cd "$(dirname "$0")/.." && pwd)
cd "$ROOT" || exit 2
export GOFLAGS=-mod=mod GOPROXY=off GOSUMDB=off GOTOOLCHAIN=local
go mod edit -replace github.com/crate-crypto/go-ipa="$R"
CHECKS=$1; shift
[ $# -gt 0 ] || set -- seeded/*/
mkdir -p out; : > out/matrix.txt
for d in "$@"; do
  d=${d%/}
  [ -f "$d/patch.diff" ] || continue
  git -C "$R" checkout -q -- . ; git -C "$R" apply "$ROOT/$d/patch.diff" || { echo "$d PATCH-FAILS" >> out/matrix.txt; continue; }
  line="$(basename $d):"
  for c in $CHECKS; do
    nice ./run $c quick > out/matrix.$c.log 2>&1; rc=$?
    case $rc in 1) line="$line $c=DETECTED";; 0) line="$line $c=missed";; *) line="$line $c=error$rc";; esac
  done
  echo "$line" | tee -a out/matrix.txt
done
git -C "$R" checkout -q -- .
