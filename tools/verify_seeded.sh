#!/bin/sh
# usage: tools/verify_seeded.sh <patch.diff>  - in a scratch worktree: the patched tree builds and the pinned suite passes.
P=$(readlink -f "$1")
export GOFLAGS=-mod=mod GOPROXY=off GOSUMDB=off GOTOOLCHAIN=local
W=/tmp/wt/verify.$$
git -C /repo worktree add -q --detach "$W" HEAD || exit 2
trap 'git -C /repo worktree remove --force "$W"' EXIT
cd "$W" && git apply "$P" || { echo "PATCH-DOES-NOT-APPLY"; exit 1; }
go build ./... || { echo "BUILD-FAILS"; exit 1; }
if go test -vet=off -count=1 -timeout 25m ./... >"$W.log" 2>&1; then echo "SUITE-PASSES"; else echo "SUITE-FAILS"; grep -E "^(--- FAIL|FAIL|ok)" "$W.log" | head; fi
rm -f "$W.log"
