#!/usr/bin/env python3
# Prints the cost table of DESIGN.md section 7 from the evidence files (one row per property: tier, children, evaluations,
# distinct non-trivial classes, wall seconds) and, with --write, replaces the table in DESIGN.md.
import json, glob, os, sys
root = os.path.dirname(os.path.dirname(os.path.abspath(__file__)))
rows = ['| id | tier | children | evaluations | distinct non-trivial classes | wall |', '|---|---|---|---|---|---|']
for f in sorted(glob.glob(os.path.join(root, 'evidence', 'C*.json'))):
    d = json.load(open(f))
    c = d['coverage']
    rows.append('| %s | %s | %d | %s | %s | %.0f s |' % (d['property_id'], d['tier'], len([x for x in c.get('configurations', []) if 'evals=' in x]), c.get('evaluations'), c.get('distinct_nontrivial'), d['wall_s']))
print('\n'.join(rows))
if '--write' in sys.argv:
    p = os.path.join(root, 'DESIGN.md')
    lines = open(p).read().split('\n')
    start = next(i for i, l in enumerate(lines) if l.startswith('| id | quick: what runs') or l.startswith('| id | tier | children'))
    end = start
    while end < len(lines) and lines[end].startswith('|'):
        end += 1
    lines[start:end] = rows
    open(p, 'w').write('\n'.join(lines))
