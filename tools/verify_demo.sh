#!/bin/sh
# usage: tools/verify_demo.sh <mutant-dir>   (contains patch.diff and demo_test.go or demo/main.go)
# Verifies in a scratch worktree: suite passes with the patch; demo passes without and fails with the patch.
D=$(readlink -f "$1")
export GOFLAGS=-mod=mod GOPROXY=off GOSUMDB=off GOTOOLCHAIN=local
W=/tmp/wt/verify.$$
git -C /repo worktree add -q --detach "$W" HEAD || exit 2
trap 'git -C /repo worktree remove --force "$W"; rm -f "$W.log"' EXIT
cd "$W" || exit 2
demo=$(ls "$D"/demo*_test.go "$D"/*_test.go 2>/dev/null | head -1)
if [ -z "$demo" ]; then echo "NO-DEMO-TEST (see README)"; exit 3; fi
pkg=$(grep -m1 '^package ' "$demo" | awk '{print $2}' | sed 's/_test$//')
case $pkg in
  multiproof) dir=. ;;
  banderwagon) dir=banderwagon ;;
  ipa) dir=ipa ;;
  fr) dir=bandersnatch/fr ;;
  fp) dir=bandersnatch/fp ;;
  bandersnatch) dir=bandersnatch ;;
  common) dir=common ;;
  parallel) dir=common/parallel ;;
  *) dir=zz_demo_$pkg; mkdir -p "$dir" ;;   # a demonstration that needs its own package / test process
esac
cp "$demo" "$dir/zz_demo_test.go"
tests=$(grep -o '^func Test[A-Za-z0-9_]*' "$dir/zz_demo_test.go" | sed 's/func //' | paste -sd'|')
if go test -vet=off -count=1 -run "^($tests)\$" "./$dir" >"$W.log" 2>&1; then echo "DEMO-PASSES-WITHOUT-CHANGE"; else echo "DEMO-FAILS-WITHOUT-CHANGE(!)"; tail -5 "$W.log"; fi
git apply "$D/patch.diff" || { echo "PATCH-DOES-NOT-APPLY"; exit 1; }
if go test -vet=off -count=1 -run "^($tests)\$" "./$dir" >"$W.log" 2>&1; then echo "DEMO-PASSES-WITH-CHANGE(!)"; else echo "DEMO-FAILS-WITH-CHANGE"; fi
rm "$dir/zz_demo_test.go"; case $dir in zz_demo_*) rmdir "$dir";; esac
if go test -vet=off -count=1 -timeout 25m ./... >"$W.log" 2>&1; then echo "SUITE-PASSES-WITH-CHANGE"; else echo "SUITE-FAILS-WITH-CHANGE(!)"; grep -E "^(--- FAIL|FAIL)" "$W.log" | head; fi
