#!/usr/bin/env python3
# Regenerates the table of seeded changes in DESIGN.md (between the header row "| id | change ..." and the last "| ..." row
# that follows it) from seeded/*/meta.json.
import json, glob, os, re
root = os.path.dirname(os.path.dirname(os.path.abspath(__file__)))
rows = []
for d in sorted(glob.glob(os.path.join(root, 'seeded', '*'))):
    mp = os.path.join(d, 'meta.json')
    if not os.path.exists(mp):
        continue
    m = json.load(open(mp))
    v = m.get('verification', {})
    summ = m.get('summary', '')
    if isinstance(summ, list):
        summ = ' '.join(summ)
    first = re.split(r'(?<=[a-z\)])\. ', summ.strip())[0].replace('|', '/').replace('\n', ' ')[:150]
    rows.append('| %s | %s | %s | %s |' % (os.path.basename(d), first, v.get('caught_by', '?').replace('|', '/'), v.get('violation_signature', '?').replace('|', '/')))
p = os.path.join(root, 'DESIGN.md')
lines = open(p).read().split('\n')
start = next(i for i, l in enumerate(lines) if l.startswith('| id | change'))
end = start + 2
while end < len(lines) and lines[end].startswith('|'):
    end += 1
lines[start + 2:end] = rows
open(p, 'w').write('\n'.join(lines))
print(len(rows), 'rows')
