#!/bin/sh
# usage: tools/try_seeded.sh <seeded-dir> <Cnn> [<Cnn>...]   - apply the seeded change to /repo, run the quick checks, undo.
# Prints one line per check: DETECTED / MISSED / ERROR.
D=$1; shift
cd /repo || exit 2
if [ -n "$(git status --porcelain)" ]; then echo "/repo not clean"; exit 2; fi
git apply "$D/patch.diff" || { echo "patch does not apply"; exit 2; }
trap 'git -C /repo checkout -- . ; git -C /repo clean -fdq' EXIT
for c in "$@"; do
  out=$(cd /verif && ./run "$c" ${TIER:-quick} 2>&1); rc=$?
  case $rc in
    1) echo "$c DETECTED: $(echo "$out" | grep -m1 -A1 '^VIOLATION' | tail -1)";;
    0) echo "$c MISSED";;
    *) echo "$c ERROR rc=$rc: $(echo "$out" | tail -2)";;
  esac
done
