#!/bin/sh
# Regression over all seeded changes: each one against the checks recorded in its meta.json as catching it,
# on a private copy of the repository (vp run --with-repo).   output: out/regress.txt
R=${VP_RUN_REPO:?need VP_RUN_REPO (use vp run --with-repo)}
ROOT=$(cd "$(dirname "$0")/.." && pwd)
cd "$ROOT" || exit 2
export GOFLAGS=-mod=mod GOPROXY=off GOSUMDB=off GOTOOLCHAIN=local
go mod edit -replace github.com/crate-crypto/go-ipa="$R"
mkdir -p out; : > out/regress.txt
for d in seeded/*/; do
  d=${d%/}
  [ -f "$d/patch.diff" ] || continue
  # REGRESS_DIRS (regex on the directory name) and REGRESS_CHECK (a check id) restrict the run
  if [ -n "$REGRESS_DIRS" ] && ! echo "$(basename $d)" | grep -Eq "$REGRESS_DIRS"; then continue; fi
  checks=$(python3 -c "
import json,re,sys
m=json.load(open('$d/meta.json'))
cb=m['verification']['caught_by'].split('(not ')[0]
cb=re.sub(r'\([^)]*\)', '', cb)   # explanations in parentheses may name other checks
cs=re.findall(r'C\d\d', cb)
seen=[]
for c in cs:
    if c not in seen: seen.append(c)
print(' '.join(seen[:2]))")
  if [ -n "$REGRESS_CHECK" ]; then case " $checks " in *" $REGRESS_CHECK "*) checks=$REGRESS_CHECK;; *) continue;; esac; fi
  git -C "$R" checkout -q -- . ; git -C "$R" apply "$ROOT/$d/patch.diff" || { echo "$(basename $d) PATCH-FAILS" >> out/regress.txt; continue; }
  line="$(basename $d):"
  for c in $checks; do
    nice ./run $c quick > out/regress.$c.log 2>&1; rc=$?
    case $rc in 1) line="$line $c=DETECTED";; 0) line="$line $c=missed";; *) line="$line $c=error$rc";; esac
  done
  echo "$line" | tee -a out/regress.txt
done
git -C "$R" checkout -q -- .
