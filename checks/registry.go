// Package checks holds one runtime monitor per property (child side) and the
// plan of child processes the driver runs for it.
package checks

import "verif/mon"

// Child describes one child process of a check.
type Child struct {
	Flavour    string // plain | race | noadx
	NCPU       int    // CPUs the child is pinned to with taskset (runtime.NumCPU() follows it)
	GOMAXPROCS int    // 0 = default (= NCPU)
	Shard      int    // case k runs in shard k % NShards
	NShards    int
	Params     map[string]string // check-specific parameters (e.g. sched mode)
	TimeoutS   int               // watchdog; 0 = default
}

// Check is one property monitor.
type Check struct {
	ID    string
	Title string
	Rule  string // how cases are generated and what makes a class distinct / non-trivial
	// Plan lists the child processes for a tier.
	Plan func(tier string) []Child
	// Run executes the monitor in a child.
	Run func(c *mon.Ctx)
	// HangIsViolation: the property promises termination, so a watchdog firing
	// inside a monitored call is a violation (otherwise inconclusive).
	HangIsViolation bool
	// CaseLimitS: per tier, the bounded-progress limit for one case (0 = 150 s quick / 1200 s thorough).
	CaseLimitS map[string]int
	// MinEvals / MinClasses: below these the run is inconclusive.
	MinEvals   map[string]int64
	MinClasses map[string]int64
	// RequiredCounters must all be > 0 in the merged result, else inconclusive.
	RequiredCounters []string
	// CrossConfig: digests recorded by children for equal case ids must agree.
	Assumptions []string
	Technique   string
	// Exhaustive: per tier, the finite space the run enumerates completely (empty = sampled only).
	Exhaustive map[string]string
}

// All is the registry.
var All = map[string]*Check{}

func register(c *Check) { All[c.ID] = c }

// shards returns n children of the same configuration splitting the case list.
func shards(n int, base Child) []Child {
	out := make([]Child, n)
	for i := range out {
		ch := base
		ch.Shard, ch.NShards = i, n
		out[i] = ch
	}
	return out
}

// shardsVar is shards() with the CPU count varied over the shards (1 mostly, plus 2, 3, 5, 6, 7): code that consults
// runtime.NumCPU() anywhere underneath sees power-of-two and other counts even in checks about sequential functions.
func shardsVar(n int, base Child) []Child {
	out := shards(n, base)
	pat := []int{1, 3, 1, 2, 1, 5, 1, 6, 1, 1, 7, 1, 1, 3, 1, 5}
	for i := range out {
		out[i].NCPU = pat[i%len(pat)]
	}
	return out
}

// plus386 adds one child that runs shard `shard` of the first child's sharding in the 32-bit build (GOARCH=386): the
// portable code of every package instead of the amd64 assembly, 32-bit int and big.Word. Where 32-bit binaries cannot be
// executed the driver leaves these children out.
func plus386(out []Child, shard int) []Child { return plus386div(out, shard, 1) }

// plus386div is plus386 with the 32-bit child's share of the cases divided by div (the portable code is several times
// slower than the assembly; in the thorough tier a full shard would dominate the run time).
func plus386div(out []Child, shard, div int) []Child {
	ch := out[0]
	ch.Flavour, ch.NCPU, ch.GOMAXPROCS = "386", 1, 0
	ch.Shard = shard % ch.NShards
	if div > 1 {
		ch.NShards *= div
	}
	return append(out, ch)
}

func pick(tier string, q, t int) int {
	if tier == "thorough" {
		return t
	}
	return q
}
