package checks

import (
	"fmt"
	"math"
	"math/rand"
	"runtime"
	"sort"
	"sync"
	"sync/atomic"
	"time"

	"github.com/crate-crypto/go-ipa/bandersnatch/fr"
	"github.com/crate-crypto/go-ipa/banderwagon"
	"github.com/crate-crypto/go-ipa/common/parallel"
	"github.com/crate-crypto/go-ipa/ipa"

	"verif/mon"
)

func init() {
	register(&Check{
		ID:    "C20",
		Title: "The parallel range splitter covers every index exactly once",
		Rule: "every (n, m) pair of a tier-determined grid plus seeded random pairs plus default-m runs under the child's NumCPU; " +
			"a class is (relation of n to m, n mod m class, m bucket, delay mode, explicit/default m); non-trivial = at least 2 iterations and 2 workers allowed",
		HangIsViolation:  true,
		Exhaustive:       map[string]string{"quick": "all (n, m) with n in 0..300 and m in 1..64 (plus sampled pairs beyond)", "thorough": "all (n, m) with n in 0..2048 and m in 1..300, and default m for every n in 0..2048 under NumCPU 1..16"},
		Technique:        "external trace monitor over the work function's (start,end) events + Go race detector + runtime deadlock detector",
		MinEvals:         map[string]int64{"quick": 15000, "thorough": 500000},
		MinClasses:       map[string]int64{"quick": 40, "thorough": 60},
		RequiredCounters: []string{"invocations", "delayed_invocations"},
		Assumptions: []string{
			"race detector build: a return before all invocations finished is additionally reported as a data race between a worker's unsynchronised slot write and the checker's read",
			"NumCPU values 1..16 are produced with taskset; larger values cannot be produced on this machine",
		},
		Plan: func(tier string) []Child {
			var out []Child
			if tier == "quick" {
				out = append(out, Child{TimeoutS: pick(tier, 400, 3600), Flavour: "race", NCPU: 4, GOMAXPROCS: 4, Shard: 0, NShards: 3, Params: map[string]string{"part": "grid"}})
				out = append(out, Child{TimeoutS: pick(tier, 400, 3600), Flavour: "race", NCPU: 4, GOMAXPROCS: 2, Shard: 1, NShards: 3, Params: map[string]string{"part": "grid"}})
				out = append(out, Child{TimeoutS: pick(tier, 400, 3600), Flavour: "race", NCPU: 2, GOMAXPROCS: 1, Shard: 2, NShards: 3, Params: map[string]string{"part": "grid"}})
				for i, k := range []int{1, 2, 3, 5} {
					// the default worker limit is the CPU count, whatever GOMAXPROCS says
					out = append(out, Child{TimeoutS: pick(tier, 400, 3600), Flavour: "race", NCPU: k, GOMAXPROCS: []int{0, 8, 1, 16}[i], Params: map[string]string{"part": "default"}})
				}
				out = append(out, Child{TimeoutS: 400, Flavour: "race", NCPU: 4, GOMAXPROCS: 4, Params: map[string]string{"part": "busy"}})
				return out
			}
			for i := 0; i < 12; i++ {
				out = append(out, Child{Flavour: "race", NCPU: 1 + i%4, GOMAXPROCS: []int{1, 2, 4, 16}[i%4], Shard: i, NShards: 12, Params: map[string]string{"part": "grid"}})
			}
			for k := 1; k <= 16; k++ {
				out = append(out, Child{TimeoutS: pick(tier, 400, 3600), Flavour: "race", NCPU: k, GOMAXPROCS: []int{0, 16, 1, 2 * k}[k%4], Params: map[string]string{"part": "default"}})
			}
			for _, k := range []int{2, 4, 16} {
				out = append(out, Child{TimeoutS: 1200, Flavour: "race", NCPU: k, Params: map[string]string{"part": "busy"}})
			}
			return out
		},
		Run: runC20,
	})
}

type c20range struct{ s, e int }

// c20call runs Execute once and checks the trace. delay: 0 none, 1 yield, 2 yield/sleep.
func c20call(c *mon.Ctx, n, m int, useDefault bool, delay int, salt uint64) {
	capSlots := n + 8
	if m > 0 && m+8 > capSlots {
		capSlots = m + 8
	}
	if capSlots > n+1024 {
		capSlots = n + 1024
	}
	slots := make([]c20range, capSlots)
	var started, ended, overflow int64
	work := func(s, e int) {
		i := atomic.AddInt64(&started, 1) - 1
		if delay > 0 {
			h := salt ^ uint64(s+1)*0x9E3779B97F4A7C15
			h ^= h >> 31
			h *= 0xBF58476D1CE4E5B9
			h ^= h >> 29
			switch {
			case h%4 == 0:
			case h%4 < 3 || delay == 1:
				runtime.Gosched()
			default:
				time.Sleep(time.Duration(10+h%200) * time.Microsecond)
			}
		}
		if int(i) < len(slots) {
			slots[i] = c20range{s, e} // deliberately unsynchronised: only Execute's join orders it before the checker's read
		} else {
			atomic.AddInt64(&overflow, 1)
		}
		atomic.AddInt64(&ended, 1)
	}
	if useDefault {
		parallel.Execute(n, work)
		m = runtime.NumCPU()
	} else if salt%3 == 0 {
		// the limit is spread from a slice the caller keeps and re-uses: it must come back unchanged, also after a call
		// with fewer iterations than workers (n = 0 first, then the real call with the same slice)
		lim := make([]int, 1, 4)
		lim[0] = m
		parallel.Execute(0, func(int, int) {}, lim...)
		if lim[0] != m {
			c.Fail("caller-limit-slice-modified", fmt.Sprintf("Execute(0, work, limits...) changed the caller's limits[0] from %d to %d", m, lim[0]), nil)
			lim[0] = m
		}
		parallel.Execute(n, work, lim...)
		if lim[0] != m {
			c.Fail("caller-limit-slice-modified", fmt.Sprintf("Execute(n=%d, work, limits...) changed the caller's limits[0] from %d to %d", n, m, lim[0]), nil)
		}
	} else {
		parallel.Execute(n, work, m)
	}
	st, en := atomic.LoadInt64(&started), atomic.LoadInt64(&ended)
	c.Count("invocations", st)
	if delay > 0 {
		c.Count("delayed_invocations", st)
	}
	det := map[string]interface{}{"n": n, "m": m, "default_m": useDefault, "started": st, "ended": en}
	if en != st {
		c.Fail("return-before-join", fmt.Sprintf("Execute(n=%d,m=%d) returned with %d of %d invocations finished", n, m, en, st), det)
		return
	}
	if overflow > 0 {
		c.Fail("too-many-invocations", fmt.Sprintf("Execute(n=%d,m=%d) started %d invocations", n, m, st), det)
		return
	}
	lim := n
	if m < lim {
		lim = m
	}
	if int(st) > lim {
		c.Fail("too-many-invocations", fmt.Sprintf("Execute(n=%d,m=%d) started %d invocations > min(n,m)=%d", n, m, st, lim), det)
	}
	rs := append([]c20range(nil), slots[:st]...)
	sort.Slice(rs, func(a, b int) bool { return rs[a].s < rs[b].s })
	det["ranges"] = rs
	pos := 0
	for _, r := range rs {
		if r.e <= r.s {
			c.Fail("empty-range", fmt.Sprintf("Execute(n=%d,m=%d) passed the empty or inverted range [%d,%d)", n, m, r.s, r.e), det)
			return
		}
		if r.s < 0 || r.e > n {
			c.Fail("out-of-bounds", fmt.Sprintf("Execute(n=%d,m=%d) passed [%d,%d) outside [0,%d)", n, m, r.s, r.e, n), det)
			return
		}
		if r.s != pos {
			sig := "gap"
			if r.s < pos {
				sig = "overlap"
			}
			c.Fail(sig, fmt.Sprintf("Execute(n=%d,m=%d): range [%d,%d) does not continue at %d", n, m, r.s, r.e, pos), det)
			return
		}
		pos = r.e
	}
	if pos != n {
		c.Fail("gap", fmt.Sprintf("Execute(n=%d,m=%d): ranges end at %d, not at n", n, m, pos), det)
	}
}

func c20class(n, m, delay int, def bool) (string, bool) {
	rel := "n>=2m"
	switch {
	case n == 0:
		rel = "n=0"
	case n < m:
		rel = "n<m"
	case n == m:
		rel = "n=m"
	case n < 2*m:
		rel = "m<n<2m"
	}
	md := "mid"
	switch {
	case n%m == 0:
		md = "0"
	case n%m == 1:
		md = "1"
	case n%m == m-1:
		md = "m-1"
	}
	mb := "m65+"
	switch {
	case m == 1:
		mb = "m1"
	case m <= 4:
		mb = "m2-4"
	case m <= 16:
		mb = "m5-16"
	case m <= 64:
		mb = "m17-64"
	}
	return fmt.Sprintf("%s|mod=%s|%s|delay=%d|default=%v", rel, md, mb, delay, def), n >= 2 && m >= 2
}

// c20nested: the work function itself calls Execute, and several independent Execute calls run at the same time
// (as MSMs inside concurrent proofs do): each call must still cover its own range exactly once and join.
func c20nested(c *mon.Ctx, rng *rand.Rand) {
	outerN, outerM := 1+rng.Intn(24), 1+rng.Intn(8)
	innerN, innerM := rng.Intn(200), 1+rng.Intn(16)
	hits := make([][]int32, outerN)
	for i := range hits {
		hits[i] = make([]int32, innerN)
	}
	parallel.Execute(outerN, func(s, e int) {
		for i := s; i < e; i++ {
			row := hits[i]
			parallel.Execute(innerN, func(a, b int) {
				for j := a; j < b; j++ {
					atomic.AddInt32(&row[j], 1)
				}
			}, innerM)
		}
	}, outerM)
	for i := range hits {
		for j := range hits[i] {
			if hits[i][j] != 1 {
				c.Fail("nested-execute-coverage", fmt.Sprintf("nested Execute (outer n=%d m=%d, inner n=%d m=%d): inner index %d of outer iteration %d was visited %d times", outerN, outerM, innerN, innerM, j, i, hits[i][j]), nil)
				return
			}
		}
	}
	c.Count("invocations", int64(outerN))
	c.Count("delayed_invocations", 1)
	c.Eval(fmt.Sprintf("nested|outer-m=%d|inner-m=%d", outerM, innerM), innerN >= 2)
	// several top-level calls at once
	var wg sync.WaitGroup
	for g := 0; g < 6; g++ {
		n, m := rng.Intn(300), 1+rng.Intn(20)
		salt := rng.Uint64()
		wg.Add(1)
		go func() {
			defer wg.Done()
			c20call(c, n, m, false, 1, salt)
		}()
	}
	wg.Wait()
	c.Eval("concurrent-top-level-calls", true)
}

// c20concurrentDefault: more calls without an explicit limit in flight than there are CPUs, released together (and one
// nested inside another); every one must hand out its whole range.
func c20concurrentDefault(c *mon.Ctx, rng *rand.Rand) {
	G := 2*runtime.NumCPU() + 3
	var wg sync.WaitGroup
	var ready int32
	for g := 0; g < G; g++ {
		g := g
		n := 1 + rng.Intn(400)
		salt := rng.Uint64()
		wg.Add(1)
		go func() {
			defer wg.Done()
			atomic.AddInt32(&ready, 1)
			for atomic.LoadInt32(&ready) < int32(G) {
				runtime.Gosched()
			}
			p, _ := mon.Try(func() {
				if g%5 == 4 {
					parallel.Execute(3, func(a, b int) { c20call(c, n, 0, true, 1, salt) })
				} else {
					c20call(c, n, 0, true, 2, salt)
				}
			})
			if p != nil {
				c.Fail("panic/concurrent-default-limit-calls", fmt.Sprintf("Execute(%d, work) panicked while %d calls without an explicit limit were in flight on %d CPUs: %v", n, G, runtime.NumCPU(), p), nil)
			}
		}()
	}
	wg.Wait()
	c.Eval(fmt.Sprintf("concurrent-default-limit-calls|ncpu=%d", runtime.NumCPU()), true)
}

// c20busy: the splitter is a utility shared with the library's own users (table construction, batch normalisation,
// MSMs). A grid of calls is made while those run in other goroutines, and again after several overlapping table
// constructions have finished: what the library does with the splitter must not change what a caller gets from it.
func c20busy(c *mon.Ctx) {
	pts := ipa.GenerateRandomPoints(6)
	many := make([]banderwagon.Element, 300)
	sc := make([]fr.Element, 300)
	for i := range many {
		many[i] = pts[i%len(pts)]
		many[i].Double(&many[i])
		sc[i].SetUint64(uint64(3*i + 1))
	}
	tables := func() {
		for i := range pts {
			banderwagon.NewPrecompPoint(pts[i], 8) // one basis point's window tables (the unit NewIPASettings builds 256 of)
		}
	}
	work := func() {
		tables()
		cp := append([]banderwagon.Element(nil), many...)
		ptrs := make([]*banderwagon.Element, len(cp))
		for i := range cp {
			ptrs[i] = &cp[i]
		}
		banderwagon.BatchNormalize(ptrs)
		var e banderwagon.Element
		e.MultiExp(cp, sc, banderwagon.MultiExpConfig{NbTasks: 8, ScalarsMont: true})
	}
	sweep := func(tag string) {
		k := 0
		for n := 0; n <= 130; n++ {
			for _, m := range []int{1, 2, 3, 4, 7, 16, 64} {
				k++
				c20call(c, n, m, false, k%3, uint64(c.Seed)*31+uint64(k))
				cl, nt := c20class(n, m, k%3, false)
				c.Eval(tag+"|"+cl, nt)
			}
			if n%4 == 0 {
				c20call(c, n, 0, true, 1, uint64(c.Seed)*17+uint64(n))
			}
		}
	}
	stop := make(chan struct{})
	var wg sync.WaitGroup
	for w := 0; w < 2; w++ {
		wg.Add(1)
		go func() {
			defer wg.Done()
			for {
				select {
				case <-stop:
					return
				default:
					work()
				}
			}
		}()
	}
	c.Case("busy/during-library-activity", func() { sweep("during-library-activity") })
	close(stop)
	wg.Wait()
	c.Case("busy/after-overlapping-table-constructions", func() {
		var wg2 sync.WaitGroup
		for w := 0; w < 3; w++ {
			wg2.Add(1)
			go func() { defer wg2.Done(); tables() }()
			time.Sleep(time.Duration(200+300*w) * time.Microsecond)
		}
		wg2.Wait()
		sweep("after-table-constructions")
	})
}

func runC20(c *mon.Ctx) {
	part := c.Config["part"]
	if part == "busy" {
		c20busy(c)
		return
	}
	if part == "default" {
		w := runtime.NumCPU()
		maxN := c.Pick(1024, 2048)
		c.Case(fmt.Sprintf("default/ncpu=%d/gomaxprocs=%d", w, runtime.GOMAXPROCS(0)), func() {
			for n := 0; n <= maxN; n++ {
				delay := n % 3
				c20call(c, n, 0, true, delay, uint64(c.Seed)*131+uint64(n))
				cl, nt := c20class(n, w, delay, true)
				c.Eval(fmt.Sprintf("ncpu=%d|P=%d|%s", w, runtime.GOMAXPROCS(0), cl), nt)
			}
			c.Sample(map[string]interface{}{"call": "Execute(n, work)", "n": "0.." + fmt.Sprint(maxN), "numcpu": w})
		})
		c.Case("default/concurrent", func() {
			rng := c.Rand("default/concurrent")
			for k := 0; k < c.Pick(20, 200); k++ {
				c20concurrentDefault(c, rng)
			}
		})
		return
	}
	maxN, maxM := 300, 64
	if c.Thorough() {
		maxN, maxM = 2048, 300
	}
	for m := 1; m <= maxM; m++ {
		if !c.Mine(m) {
			continue
		}
		m := m
		c.Case(fmt.Sprintf("grid/m=%d", m), func() {
			for n := 0; n <= maxN; n++ {
				delay := (n + m) % 3
				if c.Thorough() && n > 400 && (n+m)%7 != 0 {
					delay = 0 // keep the exhaustive grid affordable: delays on a seventh of the large calls
				}
				c20call(c, n, m, false, delay, uint64(c.Seed)*977+uint64(n*1000+m))
				cl, nt := c20class(n, m, delay, false)
				c.Eval(cl, nt)
			}
		})
	}
	c.Sample(map[string]interface{}{"call": "Execute(n, work, m)", "n": fmt.Sprintf("0..%d exhaustive", maxN), "m": fmt.Sprintf("1..%d exhaustive (this shard: m %% %d == %d)", maxM, c.NShards, c.Shard)})
	if c.Mine(0) {
		id := "nested-and-concurrent"
		c.Case(id, func() {
			rng := c.Rand(id)
			for k := 0; k < c.Pick(60, 600); k++ {
				c20nested(c, rng)
			}
		})
	}
	// seeded random pairs with larger n and m
	nr := c.Pick(5000, 30000)
	for k := 0; k < nr; k += 500 {
		if !c.Mine(k / 500) {
			continue
		}
		id := fmt.Sprintf("random/%d", k)
		c.Case(id, func() {
			rng := c.Rand(id)
			for j := 0; j < 500; j++ {
				n := rng.Intn(2049)
				m := 1 + rng.Intn(300)
				if rng.Intn(4) == 0 {
					m = 1 + rng.Intn(n+2)
				}
				if rng.Intn(12) == 0 {
					m = []int{1 << 10, 1 << 16, 1 << 20, 1<<31 - 1, 257, 512, 1023, math.MaxInt/2 + 1, math.MaxInt >> 15, math.MaxInt >> 1, math.MaxInt}[rng.Intn(11)] // far more workers allowed than iterations
				}
				if rng.Intn(25) == 0 {
					// iteration counts around 2^12, 2^16 and beyond 2^20 (16-bit counters, chunk tables)
					n = []int{4095, 4096, 4097, 65535, 65536, 65537, 1<<20 + 3}[rng.Intn(7)]
					if rng.Intn(2) == 0 {
						m = []int{255, 256, 257, 1024, 4096}[rng.Intn(5)]
					}
				}
				delay := rng.Intn(3)
				c20call(c, n, m, false, delay, rng.Uint64())
				if m >= 1<<16 {
					// call histories: the same huge limit again with another n that agrees in its low bits, the limit's low
					// 16 bits alone, and the first call again (anything remembered between calls must be keyed completely)
					for _, nm := range [][2]int{{n + 64, m}, {n % 64, m}, {n, m & 0xffff}, {n + 64*(1+rng.Intn(9)), m&0xffff | 1<<16}, {n, m}} {
						if nm[1] >= 1 {
							c20call(c, nm[0], nm[1], false, 0, rng.Uint64())
						}
					}
				}
				cl, nt := c20class(n, m, delay, false)
				c.Eval(cl, nt)
				if j == 0 {
					c.Sample(map[string]interface{}{"call": "Execute(n, work, m)", "n": n, "m": m, "delay_mode": delay})
				}
			}
		})
	}
}
