package checks

import (
	"fmt"

	"verif/mon"
)

func init() {
	register(&Check{
		ID:    "C13",
		Title: "Operations are pure: config and caller inputs are never modified",
		Rule: "seeded random sequential histories (20-40 calls) of the C12 operation mix (Commit, CreateMultiProof with several openings sharing an index and a polynomial slice, CheckMultiProof, IPA prove/verify, MSMs, element operations, batch helpers, transcripts, scalar and point codecs, square roots, parallel.Execute, GenerateRandomPoints); " +
			"a cheap fingerprint (SRS, Q, weight tables, label slices incl. capacity, Generator/Identity, bandersnatch.Identity/IdentityExt, curve parameters, sqrt-table digest, in-domain boundary, modulus) is taken before and after every call, the full fingerprint of the 350 MB MSM tables at start, every 60 calls and at the end; " +
			"every caller-supplied input (polynomials, indices, values, proof objects incl. L/R backing arrays, points, scalars, byte slices) is snapshotted before the call and compared bitwise after it (commitments passed to CreateMultiProof: still the same class); a fixed probe set (commit, proof, verification, MSM, decode, transcript) is executed before and after each history and at a random position inside it and must return identical bytes; " +
			"a class is (operation kind, position class in the history); non-trivial = a call that takes caller-owned slices or pointers",
		Technique:        "state-fingerprint monitor around every call of random API histories + bitwise input snapshots + replayed probe calls (history independence)",
		MinEvals:         map[string]int64{"quick": 2500, "thorough": 40000},
		MinClasses:       map[string]int64{"quick": 20, "thorough": 24},
		RequiredCounters: []string{"cheap_fingerprints_compared", "full_table_fingerprints_compared", "probe_replays_compared", "calls_with_input_snapshots"},
		Assumptions:      []string{"APIs whose documented purpose is in-place mutation of the receiver or argument (Butterfly, MulBy*, FromMont/ToMont, Normalize, BatchNormalize) are checked against their specification in C15/C19, not against immutability", "the table fingerprint is a 64-bit non-cryptographic mix: a change is detected unless it collides"},
		Plan: func(tier string) []Child {
			return shards(pick(tier, 12, 16), Child{Flavour: "plain", NCPU: 2})
		},
		Run: runC13,
	})
}

func runC13(c *mon.Ctx) {
	env := GetEnv()
	rng := c.Rand(fmt.Sprintf("c13/%d", c.Shard))
	o := newOpCtx(env, c.Seed*100+int64(c.Shard), rng)
	curOp := ""
	o.inputModified = func(sig, msg string) {
		c.Fail(sig, msg+" (during "+curOp+")", nil)
	}
	fp0 := cheapFingerprint(env.Conf)
	tf0 := tableFingerprint(env.Conf)
	c.Count("full_table_fingerprints_compared", 1)
	calls := 0
	takesInputs := func(kind int) bool {
		switch kind {
		case opSqrt, opExecute, opCRS, opNewSettings:
			return false
		}
		return true
	}
	// probe set: fixed instances of every kind except the expensive ones
	type probe struct{ kind, k int }
	probes := []probe{{opCommit, 1000}, {opProve, 1000}, {opVerify, 1000}, {opIPA, 1000}, {opMSM, 1000}, {opCodec, 1000}, {opTranscript, 1000}, {opElement, 1000}, {opBatch, 1000}, {opProofIO, 1000}}
	var probeWant []string
	c.Case("probes/initial", func() {
		for _, p := range probes {
			probeWant = append(probeWant, o.exec(p.kind, p.k))
		}
	})
	if len(probeWant) != len(probes) {
		return
	}
	runProbes := func(where string) {
		for i, p := range probes {
			if where == "inside" && i%3 != calls%3 {
				continue
			}
			curOp = "probe " + opNames[p.kind]
			got := o.exec(p.kind, p.k)
			c.Count("probe_replays_compared", 1)
			if got != probeWant[i] {
				c.Fail("result-depends-on-history/"+opNames[p.kind], fmt.Sprintf("the probe call %s returns different bytes %s the history than before it", opNames[p.kind], where), map[string]string{"before": probeWant[i], "now": got})
			}
		}
	}
	nh := c.Pick(168, 3200)
	for h := 0; h < nh; h++ {
		if !c.Mine(h) {
			continue
		}
		id := fmt.Sprintf("history/%d", h)
		h := h
		c.Case(id, func() {
			r := c.Rand(id)
			n := 20 + r.Intn(21)
			probeAt := r.Intn(n)
			var trace []string
			for i := 0; i < n; i++ {
				kind := r.Intn(numOpKinds)
				if kind == opNewSettings || (kind == opProve || kind == opVerify || kind == opIPA) && r.Intn(2) == 0 {
					kind = []int{opCommit, opMSM, opBatch, opElement, opCodec}[r.Intn(5)]
				}
				k := h*100 + i
				curOp = fmt.Sprintf("%s#%d", opNames[kind], k)
				trace = append(trace, curOp)
				before := fp0
				_ = before
				o.exec(kind, k)
				calls++
				after := cheapFingerprint(env.Conf)
				c.Count("cheap_fingerprints_compared", 1)
				if after != fp0 {
					c.Fail("configuration-changed/"+opNames[kind], fmt.Sprintf("the shared configuration or a package-level constant changed during %s", curOp), map[string]interface{}{"history": trace})
					fp0 = after
				}
				if takesInputs(kind) {
					c.Count("calls_with_input_snapshots", 1)
				}
				pos := "middle"
				if i == 0 {
					pos = "first"
				} else if i == n-1 {
					pos = "last"
				}
				c.Eval(opNames[kind]+"|"+pos, takesInputs(kind))
				if i == probeAt {
					runProbes("inside")
				}
				if calls%60 == 0 {
					tf := tableFingerprint(env.Conf)
					c.Count("full_table_fingerprints_compared", 1)
					if tf != tf0 {
						c.Fail("tables-changed", "the precomputed MSM tables changed during the last 60 calls", map[string]interface{}{"history": trace})
						tf0 = tf
					}
				}
			}
			runProbes("after")
			if h == 0 {
				c.Sample(map[string]interface{}{"history": trace, "probes": len(probes)})
			}
		})
	}
	c.Case("final-fingerprint", func() {
		if tf := tableFingerprint(env.Conf); tf != tf0 {
			c.Fail("tables-changed", "the precomputed MSM tables changed during the run", nil)
		}
		c.Count("full_table_fingerprints_compared", 1)
	})
}
