package checks

import (
	"bytes"
	"crypto/sha256"
	"fmt"
	"math/big"
	"math/rand"
	"runtime/debug"

	"github.com/crate-crypto/go-ipa/bandersnatch/fr"
	"github.com/crate-crypto/go-ipa/banderwagon"
	"github.com/crate-crypto/go-ipa/common"

	"verif/mon"
	"verif/ref"
)

func init() {
	register(&Check{
		ID:    "C14",
		Title: "Transcript challenges follow the specified hash chain and bind all messages",
		Rule: "seeded random sequences of DomainSep/AppendMessage/AppendScalar/AppendPoint/ChallengeScalar (length 0..64, thorough up to 512; labels and messages of length 0..200, single messages up to 100 kB, occasionally protocol labels/labels/messages of about 55/64/1024/4096/65536 bytes; pending buffers far beyond 1024 bytes; scalars 0, r-1, edge, random; points in six representations incl. the other class member; consecutive challenges), " +
			"each executed twice on the library and once on the reference transcript, plus single-edit perturbations (one byte of a label/message/protocol label flipped, two adjacent operations swapped, an operation dropped or duplicated); " +
			"a class is (sequence length class, max pending bytes class, operation kinds used, perturbation kind); non-trivial = at least one append before a challenge",
		Technique:        "reference-model monitor: independent byte-accumulator + SHA-256 transcript run in lock step with the real one; every challenge compared",
		MinEvals:         map[string]int64{"quick": 20000, "thorough": 500000},
		MinClasses:       map[string]int64{"quick": 80, "thorough": 120},
		RequiredCounters: []string{"challenges_compared", "perturbed_pairs_differ", "pending_over_1024"},
		Assumptions:      []string{"SHA-256 collisions are treated as impossible: two different absorbed byte streams must give different challenges"},
		Plan: func(tier string) []Child {
			return plus386(shardsVar(pick(tier, 6, 16), Child{Flavour: "plain", NCPU: 1}), 1)
		},
		Run: runC14,
	})
}

type c14op struct {
	kind  int // 0 DomainSep, 1 AppendMessage, 2 AppendScalar, 3 AppendPoint, 4 Challenge
	label []byte
	msg   []byte
	s     *big.Int
	pt    int // index into pool
	rep   int // representation kind
}

func c14bytes(rng *rand.Rand, max int) []byte {
	var n int
	switch rng.Intn(8) {
	case 0:
		n = 0
	case 1:
		n = 1
	case 2:
		n = rng.Intn(max + 1)
	case 3:
		n = rng.Intn(24)
		if rng.Intn(24) == 0 {
			// around the hash block size and around buffer-size powers of two, whatever the nominal maximum
			n = []int{55, 64, 1024, 4096, 65536}[rng.Intn(5)] + rng.Intn(3) - 1
		}
	default:
		n = rng.Intn(24)
	}
	b := make([]byte, n)
	rng.Read(b)
	return b
}

func c14gen(rng *rand.Rand, maxLen, maxMsg int, poolN int) []c14op {
	n := rng.Intn(maxLen + 1)
	ops := make([]c14op, 0, n+1)
	for i := 0; i < n; i++ {
		o := c14op{kind: rng.Intn(5), label: c14bytes(rng, 40)}
		switch o.kind {
		case 1:
			o.msg = c14bytes(rng, maxMsg)
		case 2:
			o.s = randScalar(rng)
		case 3:
			o.pt = rng.Intn(poolN)
			o.rep = rng.Intn(NumRepKinds)
		case 4:
			if rng.Intn(3) != 0 { // fewer challenges: let pending data accumulate
				o.kind = 1
				o.msg = c14bytes(rng, maxMsg)
			}
		}
		ops = append(ops, o)
	}
	ops = append(ops, c14op{kind: 4, label: c14bytes(rng, 12)})
	if rng.Intn(3) == 0 {
		ops = append(ops, c14op{kind: 4, label: c14bytes(rng, 12)})
	}
	return ops
}

type c14runRes struct {
	chals      []*big.Int
	refChals   []*big.Int
	maxPending int
}

func c14run(c *mon.Ctx, proto string, ops []c14op, pool *Pool, rng *rand.Rand, cmp bool) c14runRes {
	lt := common.NewTranscript(proto)
	rt := ref.NewTranscript(proto)
	var out c14runRes
	// one scalar and one point object are re-used (mutated in place) across calls, as an accumulator would be
	var accS fr.Element
	var accP banderwagon.Element
	pending := len(proto)
	for i, o := range ops {
		// the label lives in a larger backing array (spare capacity filled with sentinels): a callee that appends to it
		// writes into memory the caller still owns
		label, labelChk := spareBytes(o.label)
		var scribbleMsg []byte
		switch o.kind {
		case 0:
			lt.DomainSep(label)
			rt.DomainSep(o.label)
			pending += len(label)
		case 1:
			msg, msgChk := spareBytes(o.msg)
			if len(o.msg) >= len(o.label) && len(o.label) > 0 && i%5 == 0 {
				// label aliases the beginning of the message's backing array
				copy(msg, o.label)
				copy(ops[i].msg, o.label)
				o.msg = ops[i].msg
				label = msg[:len(o.label):len(o.label)]
				labelChk = func() bool { return true }
			}
			if i%7 == 3 {
				// message and label on read-only pages: absorbing is a read-only use of both
				lt.AppendMessage(roBytesBudget(msg), roBytesBudget(label))
			} else {
				lt.AppendMessage(msg, label)
			}
			if !msgChk() {
				c.Fail("input-modified/AppendMessage", "AppendMessage wrote into the spare capacity of the message slice", nil)
			}
			if string(msg) != string(o.msg) {
				c.Fail("input-modified/AppendMessage", "AppendMessage changed the message", nil)
			}
			scribbleMsg = msg // overwritten below, once the label (which may alias it) has been checked
			rt.AppendMessage(o.msg, o.label)
			pending += len(label) + len(msg)
		case 2:
			e := FrFromBig(o.s)
			keep := e
			if ro := c14roFr(&e, i); ro != nil {
				lt.AppendScalar(ro, label) // the scalar is on a read-only page: absorbing it is a read-only use
			} else if i%2 == 0 {
				accS = e
				lt.AppendScalar(&accS, label)
				e = accS
			} else {
				lt.AppendScalar(&e, label)
			}
			rt.AppendScalar(o.s, o.label)
			pending += len(label) + 32
			if e != keep {
				c.Fail("input-modified/AppendScalar", "AppendScalar changed the scalar", nil)
			}
			accS.SetUint64(0xBAD) // the caller's variable is re-used afterwards
		case 3:
			var l *big.Int
			flip := false
			switch o.rep {
			case 1:
				l = big.NewInt(2)
			case 2:
				l = randNonZeroP(rng)
			case 3:
				flip = true
			case 4:
				flip = true
				l = randNonZeroP(rng)
			case 5:
				l = new(big.Int).Sub(ref.P, bigOne)
			case 6:
				l = repLambdas[rng.Intn(len(repLambdas))]
			case 7:
				l = new(big.Int).Mod(new(big.Int).Mul(big.NewInt(int64(1+rng.Intn(3))), rInvFp), ref.P)
			}
			e := ElemFromRef(pool.P[o.pt], l, flip)
			keep := e
			if ro := c14roElem(&e, i); ro != nil {
				lt.AppendPoint(ro, label) // the point is on a read-only page
			} else if i%2 == 0 {
				accP = e
				lt.AppendPoint(&accP, label)
				e = accP
			} else {
				lt.AppendPoint(&e, label)
			}
			rt.AppendPoint(pool.P[o.pt], o.label)
			pending += len(label) + 32
			if e != keep {
				c.Fail("input-modified/AppendPoint", "AppendPoint changed the point", nil)
			}
			accP.SetIdentity()
		case 4:
			pending += len(label)
			if pending > out.maxPending {
				out.maxPending = pending
			}
			got := lt.ChallengeScalar(label)
			want := rt.ChallengeScalar(o.label)
			g := FrToBig(&got)
			out.chals = append(out.chals, g)
			out.refChals = append(out.refChals, want)
			if cmp {
				c.Count("challenges_compared", 1)
				if !FrRawReduced(&got) || g.Cmp(want) != 0 {
					c.Fail("challenge-differs-from-spec", fmt.Sprintf("challenge %d (operation %d, %d bytes pending) = %s, specification gives %s", len(out.chals), i, pending, g.Text(16), want.Text(16)),
						map[string]interface{}{"protocol_label": proto, "ops": c14describe(ops[:i+1])})
					return out
				}
			}
			pending = len(label) + 32
		}
		if string(label) != string(o.label) || !labelChk() {
			c.Fail("input-modified/label", "a transcript call changed its label argument or wrote into its spare capacity", nil)
		}
		// the call has returned: the buffers are the caller's again and are overwritten (a transcript that kept a
		// reference instead of absorbing a copy would hash the new contents)
		for j := range label {
			label[j] = 0xEE
		}
		for j := range scribbleMsg {
			scribbleMsg[j] = 0xDD // the caller re-uses its message buffer after the call
		}
	}
	return out
}

func c14describe(ops []c14op) []string {
	var out []string
	for _, o := range ops {
		switch o.kind {
		case 0:
			out = append(out, fmt.Sprintf("DomainSep(%x)", o.label))
		case 1:
			m := o.msg
			if len(m) > 16 {
				m = m[:16]
			}
			out = append(out, fmt.Sprintf("AppendMessage(len=%d %x.., label=%x)", len(o.msg), m, o.label))
		case 2:
			out = append(out, fmt.Sprintf("AppendScalar(%s, label=%x)", o.s.Text(16), o.label))
		case 3:
			out = append(out, fmt.Sprintf("AppendPoint(pool[%d] rep=%d, label=%x)", o.pt, o.rep, o.label))
		case 4:
			out = append(out, fmt.Sprintf("ChallengeScalar(%x)", o.label))
		}
		if len(out) > 80 {
			break
		}
	}
	return out
}

// c14perturb returns a single-edit variant and its kind; ok=false if no edit applies.
func c14perturb(rng *rand.Rand, proto string, ops []c14op) (string, []c14op, string, bool) {
	cp := make([]c14op, len(ops))
	for i, o := range ops {
		cp[i] = o
		cp[i].label = append([]byte(nil), o.label...)
		cp[i].msg = append([]byte(nil), o.msg...)
	}
	for try := 0; try < 20; try++ {
		i := rng.Intn(len(cp))
		switch rng.Intn(7) {
		case 0:
			if len(cp[i].label) > 0 {
				cp[i].label[rng.Intn(len(cp[i].label))] ^= byte(1 << uint(rng.Intn(8)))
				return proto, cp, "flip-label-bit", true
			}
		case 1:
			if cp[i].kind == 1 && len(cp[i].msg) > 0 {
				cp[i].msg[rng.Intn(len(cp[i].msg))] ^= byte(1 << uint(rng.Intn(8)))
				return proto, cp, "flip-message-bit", true
			}
		case 2:
			if len(proto) > 0 {
				b := []byte(proto)
				b[rng.Intn(len(b))] ^= 0x20
				return string(b), cp, "flip-protocol-label", true
			}
		case 3:
			if cp[i].kind == 2 {
				cp[i].s = ref.AddR(cp[i].s, bigOne)
				return proto, cp, "scalar+1", true
			}
		case 4:
			if cp[i].kind == 3 {
				cp[i].pt ^= 1
				return proto, cp, "other-point", true
			}
		case 5:
			if i+1 < len(cp) {
				cp[i], cp[i+1] = cp[i+1], cp[i]
				return proto, cp, "swap-adjacent", true
			}
		case 6:
			if cp[i].kind == 1 {
				cp[i].msg = append(cp[i].msg, 0)
				return proto, cp, "extend-message", true
			}
		}
	}
	return proto, cp, "", false
}

// c14interleaved runs two operation sequences on two live transcripts, alternating between them step by step: each
// transcript's challenges must be those of its own sequence (no state shared between transcript objects).
func c14interleaved(c *mon.Ctx, rng *rand.Rand, pool *Pool) {
	protoA, protoB := "A-"+string(c14bytes(rng, 8)), "B-"+string(c14bytes(rng, 8))
	opsA, opsB := c14gen(rng, 24, 120, len(pool.P)), c14gen(rng, 24, 120, len(pool.P))
	la, lb := common.NewTranscript(protoA), common.NewTranscript(protoB)
	ra, rb := ref.NewTranscript(protoA), ref.NewTranscript(protoB)
	apply := func(lt *common.Transcript, rt *ref.Transcript, o c14op, who string) {
		switch o.kind {
		case 0:
			lt.DomainSep(append([]byte(nil), o.label...))
			rt.DomainSep(o.label)
		case 1:
			lt.AppendMessage(append([]byte(nil), o.msg...), append([]byte(nil), o.label...))
			rt.AppendMessage(o.msg, o.label)
		case 2:
			e := FrFromBig(o.s)
			lt.AppendScalar(&e, append([]byte(nil), o.label...))
			rt.AppendScalar(o.s, o.label)
		case 3:
			e := ElemFromRef(pool.P[o.pt], nil, o.rep%2 == 1)
			lt.AppendPoint(&e, append([]byte(nil), o.label...))
			rt.AppendPoint(pool.P[o.pt], o.label)
		case 4:
			got := lt.ChallengeScalar(append([]byte(nil), o.label...))
			want := rt.ChallengeScalar(o.label)
			c.Count("challenges_compared", 1)
			if FrToBig(&got).Cmp(want) != 0 {
				c.Fail("challenge-differs-from-spec/interleaved", "with two transcripts used alternately, transcript "+who+" produced a challenge that differs from the specification of its own sequence", nil)
			}
		}
	}
	for i := 0; i < len(opsA) || i < len(opsB); i++ {
		if i < len(opsA) {
			apply(la, ra, opsA[i], "A")
		}
		if i < len(opsB) {
			apply(lb, rb, opsB[i], "B")
		}
	}
	c.EvalN("interleaved-two-transcripts", int64(len(opsA)+len(opsB)), true)
}

// c14digestClasses: messages are searched (with SHA-256 itself, no library call) whose challenge digest, read as a
// little-endian integer, falls just below or just above a multiple k*r of the scalar modulus (k = 1..8: every boundary
// of the reduction of a 256-bit digest). The library transcript absorbs such a message and is asked for three
// challenges in a row; all must be the specification's.
func c14digestClasses(c *mon.Ctx, rng *rand.Rand) {
	proto, label, cl := "c14-digest", []byte("m"), []byte("c")
	win := new(big.Int).Lsh(bigOne, 240)
	found := 0
	for k := int64(1); k <= 8; k++ {
		kr := new(big.Int).Mul(big.NewInt(k), ref.R)
		for _, above := range []bool{false, true} {
			lo, hi := new(big.Int).Sub(kr, win), kr
			if above {
				lo, hi = kr, new(big.Int).Add(kr, win)
			}
			if lo.BitLen() > 256 {
				continue
			}
			prefix := append(append([]byte(proto), label...), byte(k), byte(rng.Intn(256)))
			var msg []byte
			for i := uint64(0); i < 1<<21 && msg == nil; i++ {
				cand := append(append([]byte(nil), prefix[len(proto)+len(label):]...), byte(i), byte(i>>8), byte(i>>16), byte(i>>24))
				d := sha256.Sum256(append(append(append([]byte(nil), prefix[:len(proto)+len(label)]...), cand...), cl...))
				v := ref.FromLE(d[:])
				if v.Cmp(lo) >= 0 && v.Cmp(hi) < 0 {
					msg = cand
				}
			}
			if msg == nil {
				continue
			}
			found++
			lt, rt := common.NewTranscript(proto), ref.NewTranscript(proto)
			lt.AppendMessage(msg, label)
			rt.AppendMessage(msg, label)
			for n := 0; n < 3; n++ {
				lc := lt.ChallengeScalar(cl)
				rc := rt.ChallengeScalar(cl)
				if FrToBig(&lc).Cmp(rc) != 0 {
					c.Fail("challenge-differs-from-spec/digest-near-multiple-of-r", fmt.Sprintf("challenge %d after a challenge whose digest lies just %s %d*r differs from the specification", n+1, map[bool]string{false: "below", true: "above"}[above], k), map[string]string{"message": hx(msg)})
					break
				}
			}
			c.Eval(fmt.Sprintf("digest-class|k=%d|above=%v", k, above), true)
		}
	}
	c.Count("digest_class_messages_found", int64(found))
}

func runC14(c *mon.Ctx) {
	defer debug.SetPanicOnFault(debug.SetPanicOnFault(true)) // writes to read-only inputs become panics
	if c.Mine(1) {
		c.Case("digest-near-multiples-of-r", func() { c14digestClasses(c, c.Rand("digest-classes")) })
	}
	pool := NewPool(c.Rand("pool"), 64)
	nb := c.Pick(240, 6000)
	per := 60
	for b := 0; b < nb; b++ {
		if !c.Mine(b) {
			continue
		}
		id := fmt.Sprintf("seq/%d", b)
		b := b
		c.Case(id, func() {
			rng := c.Rand(id)
			for j := 0; j < 4; j++ {
				c14interleaved(c, rng, pool)
			}
			for j := 0; j < per; j++ {
				maxLen, maxMsg := 64, 200
				if c.Thorough() && j%10 == 0 {
					maxLen = 512
				}
				if j%20 == 7 {
					maxMsg = c.Pick(5000, 100000)
				}
				proto := string(c14bytes(rng, 30))
				if j%16 == 5 {
					proto = string(append(bytes.Repeat([]byte{byte(j)}, []int{1023, 1024, 1025, 4097, 70000}[(j/16)%5]), c14bytes(rng, 3)...))
				}
				if j%4 == 0 {
					proto = []string{"", "test", "simple_protocol", "vt"}[rng.Intn(4)]
				}
				ops := c14gen(rng, maxLen, maxMsg, len(pool.P))
				if j%8 == 3 {
					fieldEdgeCalls(nil, rng) // unrelated legal calls into the field packages (wide reductions, zeros, ...) as history
					c.Count("field_edge_calls_in_history", 1)
				}
				r1 := c14run(c, proto, ops, pool, rng, true)
				r2 := c14run(c, proto, ops, pool, rng, false)
				if len(r1.chals) != len(r2.chals) {
					continue
				}
				for i := range r1.chals {
					if r1.chals[i].Cmp(r2.chals[i]) != 0 {
						c.Fail("not-deterministic", "the same call sequence produced two different challenges", map[string]interface{}{"ops": c14describe(ops)})
					}
				}
				kinds := 0
				for _, o := range ops {
					kinds |= 1 << uint(o.kind)
				}
				lc := "len>32"
				switch {
				case len(ops) <= 2:
					lc = "len<=2"
				case len(ops) <= 8:
					lc = "len3-8"
				case len(ops) <= 32:
					lc = "len9-32"
				}
				pc := "pend>4096"
				switch {
				case r1.maxPending <= 64:
					pc = "pend<=64"
				case r1.maxPending <= 1024:
					pc = "pend<=1024"
				case r1.maxPending <= 4096:
					pc = "pend<=4096"
				}
				if r1.maxPending > 1024 {
					c.Count("pending_over_1024", 1)
				}
				c.EvalN(fmt.Sprintf("%s|%s|kinds=%02x|honest", lc, pc, kinds), int64(2*len(r1.chals)), len(ops) > 1)
				// perturbation
				p2, ops2, kind, ok := c14perturb(rng, proto, ops)
				if ok {
					r3 := c14run(c, p2, ops2, pool, rng, true)
					if len(r3.refChals) > 0 && len(r1.refChals) > 0 {
						la, lb := r1.refChals[len(r1.refChals)-1], r3.refChals[len(r3.refChals)-1]
						ga, gb := r1.chals, r3.chals
						if la.Cmp(lb) != 0 && len(ga) == len(r1.refChals) && len(gb) == len(r3.refChals) {
							if ga[len(ga)-1].Cmp(gb[len(gb)-1]) == 0 {
								c.Fail("perturbation-not-bound", "a "+kind+" edit changes the specified challenge but not the library's", map[string]interface{}{"ops": c14describe(ops)})
							} else {
								c.Count("perturbed_pairs_differ", 1)
							}
						}
					}
					c.EvalN(fmt.Sprintf("%s|%s|kinds=%02x|%s", lc, pc, kinds, kind), int64(len(r3.chals)), true)
				}
				if b == 0 && j == 1 {
					c.Sample(map[string]interface{}{"protocol_label": proto, "ops": c14describe(ops), "max_pending_bytes": r1.maxPending})
				}
			}
		})
	}
}

var c14roBudget = 300

func c14roFr(e *fr.Element, i int) *fr.Element {
	if i%9 != 4 || c14roBudget <= 0 {
		return nil
	}
	c14roBudget--
	return roFr(e)
}

func c14roElem(e *banderwagon.Element, i int) *banderwagon.Element {
	if i%9 != 5 || c14roBudget <= 0 {
		return nil
	}
	c14roBudget--
	return roElem(e)
}
