package checks

import (
	"fmt"
	"math/big"
	"math/rand"
	"runtime"
	"sync"
	"sync/atomic"

	"github.com/crate-crypto/go-ipa/bandersnatch"
	"github.com/crate-crypto/go-ipa/bandersnatch/fr"
	"github.com/crate-crypto/go-ipa/banderwagon"
	"github.com/crate-crypto/go-ipa/ipa"

	"verif/mon"
	"verif/ref"
)

func init() {
	register(&Check{
		ID:    "C09",
		Title: "Variable-base MSM is correct for every size and parallelism setting",
		Rule: "public entries (bandersnatch.MultiExp, MultiExpAffine, Element.MultiExp, ipa.MultiScalar): n in {0,1,2,3,4,5,7,8,9,15,16,17,31,32,33,63,64,65,127,128,129,255,256,257,500,1000,2048,4096 (+10^4, 7*10^4 thorough)} x NbTasks in {0,1,2,3,5,8,15,16,17,32,63,64,65,128,1024} x Montgomery/regular scalars x small-scalar share {0,5%,exactly 10%,50%,100%} " +
			"x {zero scalars, duplicate points, P and -P, identity points, edge scalars}, points = reference multiples k_i*G with known k_i so that the expected sum is (sum s_i*k_i)*G; internal entry (hook H2): every implemented window width c in {4..16,20,21} x splitFirstChunk x n in {0,1,2,150,301}, with the signed-digit partitioning compared digit by digit with a reference recoder (recorded as an observation; the verdict is the sum computed from those digits); length mismatch must give an error; under NumCPU {1,3,16} with H7 delays at split and chunk completion; " +
			"a class is (entry, n class, NbTasks, (c, nbSplits, splitFirstChunk) predicted by the cost formula, scalar form, small share) ; non-trivial = n >= 2 with a non-zero scalar",
		HangIsViolation:  true,
		Technique:        "reference-model monitor with discrete-log oracle ((sum s_i*k_i)*G by one reference multiplication) + reference recoder for the digit partitioning (hook H2) + H7 arrival-order recording/perturbation + runtime deadlock detector and watchdog",
		MinEvals:         map[string]int64{"quick": 1200, "thorough": 9000},
		MinClasses:       map[string]int64{"quick": 400, "thorough": 1000},
		RequiredCounters: []string{"msm_compared_with_reference", "partition_scalars_compared", "internal_entry_calls", "length_mismatch_errors", "hook.msm.chunk.send", "hook.msm.split.done"},
		Assumptions:      []string{"the (c, nbSplits) accounting replicates the library's cost formula for evidence only, never for a verdict", "NumCPU above 16 cannot be produced; NbTasks is an argument and is driven to 1024"},
		Plan: func(tier string) []Child {
			var out []Child
			cpus := []int{1, 3, 16, 4, 2, 8}
			if tier == "thorough" {
				cpus = []int{1, 2, 3, 4, 5, 6, 8, 12, 16, 16, 7, 9}
			}
			for i, k := range cpus {
				out = append(out, Child{TimeoutS: pick(tier, 400, 3600), Flavour: "plain", NCPU: k, Shard: i, NShards: len(cpus), Params: map[string]string{"sched": fmt.Sprint(i % 3)}})
			}
			if tier == "thorough" {
				out = append(out, Child{TimeoutS: pick(tier, 400, 3600), Flavour: "race", NCPU: 8, Shard: 0, NShards: 24, Params: map[string]string{"sched": "1", "race": "1"}})
			}
			return plus386(out, 2)
		},
		Run: runC09,
	})
}

type c09pool struct {
	k   []*big.Int
	aff []bandersnatch.PointAffine
	el  []banderwagon.Element
}

func c09newPool(rng *rand.Rand, n int) *c09pool {
	p := NewPool(rng, n)
	out := &c09pool{k: p.K}
	out.aff = make([]bandersnatch.PointAffine, n)
	out.el = make([]banderwagon.Element, n)
	for i, pt := range p.P {
		out.aff[i] = bandersnatch.PointAffine{X: FpFromBig(pt.X), Y: FpFromBig(pt.Y)}
		var l *big.Int
		flip := false
		switch i % 4 {
		case 1:
			l = big.NewInt(int64(3 + i))
		case 2:
			flip = true
		case 3:
			l = big.NewInt(int64(7 + i))
			flip = true
		}
		out.el[i] = ElemFromRef(pt, l, flip)
	}
	return out
}

// c09predict replicates the library's window/split choice (accounting only).
func c09predict(n, nbTasks int) (c uint64, nbSplits int) {
	if nbTasks <= 0 {
		nbTasks = runtime.NumCPU()
	}
	best := func(n int) uint64 {
		cs := []uint64{4, 5, 6, 7, 8, 9, 10, 11, 12, 13, 14, 15, 16, 20, 21}
		var C uint64
		min := 1e300
		for _, c := range cs {
			cost := float64(256*(n+(1<<c))) / float64(c)
			if cost < min {
				min, C = cost, c
			}
		}
		return C
	}
	nbSplits = 1
	nbChunks := 0
	for nbChunks < nbTasks {
		c = best(n)
		nbChunks = int(256 / c)
		if 256%c != 0 {
			nbChunks++
		}
		nbChunks *= nbSplits
		if nbChunks < nbTasks {
			nbSplits <<= 1
			n >>= 1
		}
	}
	return
}

type c09case struct {
	n, tasks   int
	mont       bool
	smallShare int // percent
	variant    int
	entry      int // 0 bandersnatch.MultiExp, 1 Element.MultiExp, 2 ipa.MultiScalar, 3 MultiExpAffine
}

func c09scalars(rng *rand.Rand, cs c09case, c uint64) []*big.Int {
	out := make([]*big.Int, cs.n)
	nSmall := cs.n * cs.smallShare / 100
	if cs.smallShare == 10 {
		nSmall = (cs.n + 9) / 10 // exactly the 10% threshold (rounded up)
	}
	lim := new(big.Int).Lsh(bigOne, uint(c))
	for i := range out {
		switch {
		case i < nSmall:
			out[i] = new(big.Int).Add(bigOne, randBig(rng, new(big.Int).Sub(lim, bigOne))) // 0 < s < 2^c
		case cs.variant == 1 && rng.Intn(3) == 0:
			out[i] = new(big.Int)
		case cs.variant == 2 || rng.Intn(6) == 0:
			out[i] = randScalar(rng)
		default:
			out[i] = randBig(rng, ref.R)
		}
	}
	rng.Shuffle(len(out), func(a, b int) { out[a], out[b] = out[b], out[a] })
	return out
}

func nClass(n int) string {
	switch {
	case n <= 5:
		return fmt.Sprintf("n=%d", n)
	case n <= 17:
		return "n6-17"
	case n <= 129:
		return "n18-129"
	case n <= 1000:
		return "n130-1000"
	default:
		return "n>1000"
	}
}

func c09run(c *mon.Ctx, pool *c09pool, cs c09case, rng *rand.Rand) {
	cPred, splits := c09predict(cs.n, cs.tasks)
	if cs.entry == 2 {
		cPred, splits = c09predict(cs.n, runtime.NumCPU())
	}
	scal := c09scalars(rng, cs, cPred)
	idx := make([]int, cs.n)
	neg := make([]bool, cs.n)
	for i := range idx {
		idx[i] = rng.Intn(len(pool.k))
		switch cs.variant {
		case 3: // duplicates
			if i > 0 && rng.Intn(2) == 0 {
				idx[i] = idx[rng.Intn(i)]
			}
		case 4: // P and -P together
			if i%2 == 1 {
				idx[i], neg[i] = idx[i-1], true
			}
		}
	}
	identityAt := map[int]bool{}
	torsionAt := map[int]bool{} // the order-2 point (0,-1): only at the curve-level entries
	if cs.variant == 5 {
		for i := 0; i < cs.n; i += 1 + rng.Intn(4) {
			identityAt[i] = true
			if (cs.entry == 0 || cs.entry == 3) && rng.Intn(2) == 0 {
				torsionAt[i] = true
			}
		}
	}
	// expected discrete log
	acc := new(big.Int)
	for i := range idx {
		if identityAt[i] {
			continue
		}
		t := new(big.Int).Mul(scal[i], pool.k[idx[i]])
		if neg[i] {
			acc.Sub(acc, t)
		} else {
			acc.Add(acc, t)
		}
	}
	acc.Mod(acc, ref.R)
	want := ref.Mul(ref.Generator(), acc)
	// curve-level expectation: the subgroup part plus (0,-1) once for every torsion input with an odd scalar
	odd := 0
	for i := range idx {
		if torsionAt[i] && scal[i].Bit(0) == 1 {
			odd++
		}
	}
	wantExact := want
	if odd%2 == 1 {
		wantExact = ref.Add(want, ref.FromAffine(ref.Affine{X: new(big.Int), Y: new(big.Int).Sub(ref.P, bigOne)}))
	}

	ls := make([]fr.Element, cs.n)
	for i := range ls {
		if cs.mont || cs.entry == 2 {
			ls[i] = FrFromBig(scal[i])
		} else {
			ls[i] = fr.Element(limbs(scal[i]))
		}
	}
	snapS := append([]fr.Element(nil), ls...)
	var got ref.Point
	var ok bool
	var err error
	mon.SchedTake()
	switch cs.entry {
	case 0, 3:
		pts := make([]bandersnatch.PointAffine, cs.n)
		for i := range pts {
			pts[i] = pool.aff[idx[i]]
			if neg[i] {
				pts[i].X.Neg(&pts[i].X)
			}
			if identityAt[i] {
				pts[i] = bandersnatch.PointAffine{X: FpFromBig(bigZero), Y: FpFromBig(bigOne)}
				if torsionAt[i] {
					pts[i].Y = FpFromBig(new(big.Int).Sub(ref.P, bigOne))
				}
			}
		}
		snapP := append([]bandersnatch.PointAffine(nil), pts...)
		cfg := bandersnatch.MultiExpConfig{NbTasks: cs.tasks, ScalarsMont: cs.mont}
		if cs.n == 0 && cs.variant%2 == 1 {
			pts, ls = nil, nil // nil instead of empty slices
		}
		if cs.entry == 0 {
			var res bandersnatch.PointProj
			if cs.variant%3 != 0 {
				// the receiver holds an unrelated earlier result: the sum must not depend on it
				res.FromAffine(&pool.aff[rng.Intn(len(pool.aff))])
			}
			_, err = bandersnatch.MultiExp(&res, pts, ls, cfg)
			e := banderwagon.VerifFromCoords(res.X, res.Y, res.Z)
			got, ok = ElemToRef(&e)
		} else {
			var res bandersnatch.PointAffine
			res, err = bandersnatch.MultiExpAffine(pts, ls, cfg)
			one := FpFromBig(bigOne)
			e := banderwagon.VerifFromCoords(res.X, res.Y, one)
			got, ok = ElemToRef(&e)
		}
		for i := range pts {
			if pts[i] != snapP[i] {
				c.Fail("input-modified/points", "MultiExp modified the points", nil)
				break
			}
		}
	default:
		pts := make([]banderwagon.Element, cs.n)
		for i := range pts {
			pts[i] = pool.el[idx[i]]
			if neg[i] {
				pts[i].Neg(&pts[i])
			}
			if identityAt[i] {
				pts[i] = ElemFromRef(ref.Identity(), big.NewInt(int64(2+i)), i%2 == 0)
			}
		}
		if cs.n >= 2 && cs.variant%5 == 3 {
			relateZ(pts, rng) // the Z coordinates of the list multiply to one although they are not all one
		}
		snapP := append([]banderwagon.Element(nil), pts...)
		var res banderwagon.Element
		if cs.n == 0 && cs.variant%2 == 1 {
			pts, ls = nil, nil
		}
		if cs.entry == 1 {
			res.SetIdentity()
			if cs.variant%3 != 0 {
				res = pool.el[rng.Intn(len(pool.el))] // an accumulator re-used across calls
			}
			if cs.n > 0 && cs.variant == 4 && len(pts) > 0 {
				// the receiver is one of the input points (result overwrites an operand)
				j := rng.Intn(len(pts))
				_, err = pts[j].MultiExp(pts, ls, banderwagon.MultiExpConfig{NbTasks: cs.tasks, ScalarsMont: cs.mont})
				res = pts[j]
				pts[j] = snapP[j]
			} else {
				var ret *banderwagon.Element
				ret, err = res.MultiExp(pts, ls, banderwagon.MultiExpConfig{NbTasks: cs.tasks, ScalarsMont: cs.mont})
				// the returned pointer is the caller's accumulator: if it is not the receiver, its value must be the result,
				// and writing through it must touch nothing else (checked through the package-level elements below)
				if err == nil && ret != &res {
					if ret == nil || *ret != res {
						c.Fail("returned-pointer-differs-from-receiver/Element.MultiExp", fmt.Sprintf("Element.MultiExp (n=%d) returned a pointer to an element other than its result", cs.n), nil)
					}
					if ret != nil {
						*ret = pool.el[0]
					}
				}
			}
			if msg := constantsChanged(); msg != "" {
				c.Fail("package-constant-modified/Element.MultiExp", msg+fmt.Sprintf(" during Element.MultiExp (n=%d) or when the caller wrote through the pointer it returned", cs.n), nil)
			}
		} else {
			res, err = ipa.MultiScalar(pts, ls)
		}
		got, ok = ElemToRef(&res)
		for i := range pts {
			if pts[i] != snapP[i] {
				c.Fail("input-modified/points", "MultiExp modified the points", nil)
				break
			}
		}
	}
	c.RecordOrders("msm.split.done", "msm.chunk.send")
	for i := range ls {
		if ls[i] != snapS[i] {
			c.Fail("input-modified/scalars", "MultiExp modified the caller's scalars", nil)
			break
		}
	}
	entry := []string{"bandersnatch.MultiExp", "Element.MultiExp", "ipa.MultiScalar", "MultiExpAffine"}[cs.entry]
	split := cs.n > 0 && float64((cs.n*cs.smallShare+99)/100)/float64(cs.n) >= 0.1
	cls := fmt.Sprintf("%s|%s|tasks=%d|c=%d|splits=%d|firstchunksplit~%v|mont=%v|small=%d%%|var%d", entry, nClass(cs.n), cs.tasks, cPred, splits, split, cs.mont, cs.smallShare, cs.variant)
	det := map[string]interface{}{"entry": entry, "n": cs.n, "NbTasks": cs.tasks, "ScalarsMont": cs.mont, "small_share_percent": cs.smallShare, "variant": cs.variant, "predicted_c": cPred, "predicted_splits": splits, "numcpu": runtime.NumCPU()}
	switch {
	case err != nil:
		c.Fail("error-on-equal-lengths/"+entry, fmt.Sprintf("%s with %d points and %d scalars returned %v", entry, cs.n, cs.n, err), det)
	case !ok || !got.Affine().OnCurve():
		c.Fail("msm-invalid-point/"+entry, fmt.Sprintf("%s returned an invalid point (%s)", entry, cls), det)
	case !ref.ClassEqual(got, want):
		c.Fail(fmt.Sprintf("msm-wrong-sum/%s/c=%d", entry, cPred), fmt.Sprintf("%s != sum s_i*P_i (%s)", entry, cls), det)
	case (cs.entry == 0 || cs.entry == 3) && !ref.EqualExact(got, wantExact):
		// bandersnatch.MultiExp is a function on curve points: the sum must be the right point, not only the right class
		c.Fail(fmt.Sprintf("msm-wrong-curve-point/%s", entry), fmt.Sprintf("%s returns the other member of the class: as a curve point the sum is wrong (%d order-2 inputs with odd scalar) (%s)", entry, odd, cls), det)
	}
	c.Count("msm_compared_with_reference", 1)
	c.Eval(cls, cs.n >= 2)
}

// c09recode is the reference signed-digit recoder: returns the expected
// 256-bit encodings and the number of small values.
func c09recode(scal []*big.Int, cbits uint) ([][4]uint64, int) {
	out := make([][4]uint64, len(scal))
	small := 0
	mask := new(big.Int).Sub(new(big.Int).Lsh(bigOne, cbits), bigOne)
	half := int64(1) << (cbits - 1)
	nch := (256 + int(cbits) - 1) / int(cbits)
	for i, s := range scal {
		if s.Sign() > 0 && s.BitLen() <= int(cbits) {
			small++
		}
		enc := new(big.Int)
		carry := int64(0)
		for j := 0; j < nch; j++ {
			d := new(big.Int).And(new(big.Int).Rsh(s, uint(j)*cbits), mask).Int64() + carry
			carry = 0
			if d == 0 {
				continue
			}
			if d >= half {
				d -= int64(1) << cbits
				carry = 1
			}
			var bits int64
			if d >= 0 {
				bits = d
			} else {
				bits = (-d - 1) | half
			}
			enc.Or(enc, new(big.Int).Lsh(big.NewInt(bits), uint(j)*cbits))
		}
		enc.And(enc, new(big.Int).Sub(two256, bigOne))
		out[i] = limbs(enc)
	}
	return out, small
}

func c09internal(c *mon.Ctx, pool *c09pool, cbits int, split bool, n int, rng *rand.Rand) {
	scal := make([]*big.Int, n)
	for i := range scal {
		switch rng.Intn(5) {
		case 0:
			// digit-pattern scalar for this width
			scal[i] = c05scalarGeneric(rng, cbits)
		case 1:
			scal[i] = randScalar(rng)
		case 2:
			scal[i] = new(big.Int).Add(bigOne, randBig(rng, new(big.Int).Lsh(bigOne, uint(cbits)-1)))
		default:
			scal[i] = randBig(rng, ref.R)
		}
	}
	mont := rng.Intn(2) == 0
	ls := make([]fr.Element, n)
	for i := range ls {
		if mont {
			ls[i] = FrFromBig(scal[i])
		} else {
			ls[i] = fr.Element(limbs(scal[i]))
		}
	}
	tasks := []int{1, 2, 3, 16, 64}[rng.Intn(5)]
	digits, small := bandersnatch.VerifPartitionScalars(ls, uint64(cbits), mont, tasks)
	wantDigits, wantSmall := c09recode(scal, uint(cbits))
	det := map[string]interface{}{"c": cbits, "n": n, "mont": mont, "nbTasks": tasks, "splitFirstChunk": split}
	if len(digits) != n {
		c.Fail("partition-length", "partitionScalars returned a slice of different length", det)
		return
	}
	// The digit encoding is an internal convention: a deviation from the reference recoder is recorded as an observation;
	// the verdict comes from the sum computed from these very digits below.
	for i := range digits {
		if [4]uint64(digits[i]) != wantDigits[i] {
			c.Count("partition_digits_differ_from_reference_recoder", 1)
			det["first_differing_scalar"] = scal[i].Text(16)
			break
		}
	}
	if small != wantSmall {
		c.Count("partition_small_count_differs", 1)
	}
	c.Count("partition_scalars_compared", int64(n))
	idx := make([]int, n)
	pts := make([]bandersnatch.PointAffine, n)
	acc := new(big.Int)
	for i := range pts {
		idx[i] = rng.Intn(len(pool.k))
		pts[i] = pool.aff[idx[i]]
		acc.Add(acc, new(big.Int).Mul(scal[i], pool.k[idx[i]]))
	}
	acc.Mod(acc, ref.R)
	want := ref.Mul(ref.Generator(), acc)
	var res bandersnatch.PointProj
	mon.SchedTake()
	bandersnatch.VerifMsmInner(&res, cbits, pts, digits, split)
	c.RecordOrders("msm.chunk.send")
	e := banderwagon.VerifFromCoords(res.X, res.Y, res.Z)
	got, ok := ElemToRef(&e)
	if !ok || !got.Affine().OnCurve() {
		c.Fail(fmt.Sprintf("msm-inner-invalid-point/c=%d", cbits), fmt.Sprintf("msm inner (c=%d, split=%v, n=%d) returned an invalid point", cbits, split, n), det)
	} else if !ref.ClassEqual(got, want) {
		c.Fail(fmt.Sprintf("msm-inner-wrong-sum/c=%d/split=%v", cbits, split), fmt.Sprintf("msm inner (c=%d, split=%v, n=%d) != sum s_i*P_i", cbits, split, n), det)
	}
	c.Count("internal_entry_calls", 1)
	c.Eval(fmt.Sprintf("internal|c=%d|split=%v|%s", cbits, split, nClass(n)), n >= 2)
}

// c05scalarGeneric: digit-pattern scalar for an arbitrary window width (windows may straddle limbs).
func c05scalarGeneric(rng *rand.Rand, w int) *big.Int {
	nw := (256 + w - 1) / w
	v := new(big.Int)
	half := int64(1) << uint(w-1)
	full := int64(1) << uint(w)
	for idx := 0; idx < nw; idx++ {
		var d int64
		switch rng.Intn(8) {
		case 0:
			d = 0
		case 1:
			d = 1
		case 2:
			d = half - 1
		case 3:
			d = half
		case 4:
			d = half + 1
		case 5:
			d = full - 1
		default:
			d = rng.Int63n(full)
		}
		v.Or(v, new(big.Int).Lsh(big.NewInt(d), uint(idx*w)))
	}
	v.And(v, new(big.Int).Sub(two256, bigOne))
	return v.Mod(v, ref.R)
}

// c09reuse calls the MSM entry points repeatedly on the SAME slices, replacing interior points and scalars in place
// between the calls (a caller updating one term of a long-lived vector): every call must give the sum of what the
// slices hold at that moment.
func c09reuse(c *mon.Ctx, pool *c09pool, n int, rng *rand.Rand) {
	pts := make([]banderwagon.Element, n)
	idx := make([]int, n)
	scal := make([]*big.Int, n)
	ls := make([]fr.Element, n)
	for i := range pts {
		idx[i] = rng.Intn(len(pool.el))
		pts[i] = pool.el[idx[i]]
		scal[i] = randScalar(rng)
		ls[i] = FrFromBig(scal[i])
	}
	var acc banderwagon.Element
	for round := 0; round < 5; round++ {
		sum := new(big.Int)
		for i := range pts {
			sum.Add(sum, new(big.Int).Mul(scal[i], pool.k[idx[i]]))
		}
		want := ref.Mul(ref.Generator(), sum.Mod(sum, ref.R))
		var res banderwagon.Element
		var err error
		entry := "ipa.MultiScalar"
		switch round % 3 {
		case 0:
			res, err = ipa.MultiScalar(pts, ls)
		case 1:
			entry = "Element.MultiExp"
			_, err = acc.MultiExp(pts, ls, banderwagon.MultiExpConfig{NbTasks: []int{0, 1, 4, 16}[rng.Intn(4)], ScalarsMont: true})
			res = acc
		default:
			entry = "Element.MultiExp(receiver in the list)"
			k := n / 2
			keep := pts[k]
			_, err = pts[k].MultiExp(pts, ls, banderwagon.MultiExpConfig{NbTasks: 2, ScalarsMont: true})
			res, pts[k] = pts[k], keep
		}
		got, ok := ElemToRef(&res)
		switch {
		case err != nil:
			c.Fail("error-on-equal-lengths/"+entry, err.Error(), nil)
		case !ok || !got.Affine().OnCurve() || !ref.ClassEqual(got, want):
			c.Fail("msm-wrong-sum-after-in-place-update/"+entry, fmt.Sprintf("%s on a slice of %d points whose interior elements were replaced in place since the previous call (round %d) != sum s_i*P_i of the current contents", entry, n, round), nil)
		}
		c.Eval(fmt.Sprintf("reused-slices|%s|%s|round%d", entry, nClass(n), round), n >= 2)
		// in-place update of interior terms (never the first or the last one in even rounds)
		for u := 0; u < 1+rng.Intn(2); u++ {
			k := 1 + rng.Intn(n-2)
			if round%2 == 1 {
				k = []int{0, n - 1}[rng.Intn(2)]
			}
			if rng.Intn(3) != 0 {
				idx[k] = rng.Intn(len(pool.el))
				pts[k] = pool.el[idx[k]]
			}
			if rng.Intn(3) != 0 {
				scal[k] = randScalar(rng)
				ls[k] = FrFromBig(scal[k])
			}
		}
	}
	c.Count("msm_on_reused_slices", 5)
}

// c09concurrent: many callers at once (more than four per CPU), every call large enough and with enough tasks to be
// split. Every call must return (bounded progress) with the right sum; the calls share nothing but the package.
func c09concurrent(c *mon.Ctx, pool *c09pool, rng *rand.Rand) {
	G := 4*runtime.NumCPU() + 8
	const n = 600
	type job struct {
		pts  []banderwagon.Element
		ls   []fr.Element
		want ref.Point
		got  banderwagon.Element
		err  error
	}
	jobs := make([]*job, G)
	for g := range jobs {
		j := &job{pts: make([]banderwagon.Element, n), ls: make([]fr.Element, n)}
		sum := new(big.Int)
		for i := 0; i < n; i++ {
			k := rng.Intn(len(pool.el))
			j.pts[i] = pool.el[k]
			s := big.NewInt(int64(1 + rng.Intn(1<<30)))
			if i%3 == 0 {
				s = randScalar(rng)
			}
			j.ls[i] = FrFromBig(s)
			sum.Add(sum, new(big.Int).Mul(s, pool.k[k]))
		}
		j.want = ref.Mul(ref.Generator(), sum.Mod(sum, ref.R))
		jobs[g] = j
	}
	var wg sync.WaitGroup
	var ready int32
	for g := range jobs {
		j := jobs[g]
		tasks := []int{128, 64, 256}[g%3]
		wg.Add(1)
		go func() {
			defer wg.Done()
			atomic.AddInt32(&ready, 1)
			for atomic.LoadInt32(&ready) < int32(G) {
				runtime.Gosched()
			}
			_, j.err = j.got.MultiExp(j.pts, j.ls, banderwagon.MultiExpConfig{NbTasks: tasks, ScalarsMont: true})
		}()
	}
	wg.Wait()
	for g, j := range jobs {
		got, ok := ElemToRef(&j.got)
		if j.err != nil || !ok || !ref.ClassEqual(got, j.want) {
			c.Fail("msm-wrong-sum/concurrent-callers", fmt.Sprintf("Element.MultiExp (n=%d) returned a wrong sum or an error (%v) in caller %d of %d simultaneous callers", n, j.err, g, G), nil)
			break
		}
	}
	c.Count("concurrent_callers", int64(G))
	c.Eval(fmt.Sprintf("concurrent-callers|G=%d|ncpu=%d", G, runtime.NumCPU()), true)
}

func runC09(c *mon.Ctx) {
	mode := 0
	fmt.Sscan(c.Config["sched"], &mode)
	mon.InstallSched(mode, c.Seed)
	race := c.Config["race"] == "1"
	ns := []int{0, 1, 2, 3, 4, 5, 7, 8, 9, 15, 16, 17, 31, 32, 33, 63, 64, 65, 127, 128, 129, 255, 256, 257, 500, 1000, 2048, 4096}
	maxN := 4096
	if c.Thorough() && !race {
		ns = append(ns, 10000, 70000)
		maxN = 70000
	}
	if race {
		ns = []int{0, 1, 2, 3, 8, 33, 128, 256, 257, 1000}
		maxN = 1000
	}
	pool := c09newPool(c.Rand("pool"), maxN)
	tasksList := []int{0, 1, 2, 3, 5, 8, 15, 16, 17, 32, 63, 64, 65, 128, 1024}
	reps := c.Pick(2, 10)
	k := 0
	for rep := 0; rep < reps; rep++ {
		for _, n := range ns {
			for _, tasks := range tasksList {
				k++
				if !c.Mine(k) {
					continue
				}
				if n >= 10000 && tasks != 0 && tasks != 16 && tasks != 1024 && tasks != 3 {
					continue
				}
				id := fmt.Sprintf("public/rep%d/n%d/tasks%d", rep, n, tasks)
				n, tasks := n, tasks
				c.Case(id, func() {
					rng := c.Rand(id)
					nv := 3
					if n > 2048 {
						nv = 1
					}
					for v := 0; v < nv; v++ {
						cs := c09case{n: n, tasks: tasks, mont: rng.Intn(2) == 0, smallShare: []int{0, 5, 10, 50, 100}[rng.Intn(5)], variant: rng.Intn(6), entry: rng.Intn(4)}
						if v == 0 {
							cs.entry = (k + rep) % 4
						}
						if cs.entry == 2 && v > 0 {
							cs.entry = 1
						}
						c09run(c, pool, cs, rng)
						if k == 1 && v == 0 {
							c.Sample(map[string]interface{}{"entry": cs.entry, "n": cs.n, "NbTasks": cs.tasks, "ScalarsMont": cs.mont, "small_share_percent": cs.smallShare, "variant": cs.variant})
						}
					}
					// length mismatch must be an error
					if n > 0 {
						var res bandersnatch.PointProj
						_, err := bandersnatch.MultiExp(&res, pool.aff[:n], make([]fr.Element, n-1), bandersnatch.MultiExpConfig{NbTasks: tasks})
						var r2 banderwagon.Element
						_, err2 := r2.MultiExp(pool.el[:n-1], make([]fr.Element, n), banderwagon.MultiExpConfig{NbTasks: tasks})
						_, err3 := ipa.MultiScalar(pool.el[:n], make([]fr.Element, n-1))
						if err == nil || err2 == nil || err3 == nil {
							c.Fail("no-error-on-length-mismatch", fmt.Sprintf("length mismatch accepted (n=%d): %v %v %v", n, err, err2, err3), nil)
						}
						c.Count("length_mismatch_errors", 3)
						c.Eval(fmt.Sprintf("length-mismatch|%s", nClass(n)), true)
					}
				})
			}
		}
	}
	// internal entry: every implemented window width
	widths := []int{4, 5, 6, 7, 8, 9, 10, 11, 12, 13, 14, 15, 16}
	bigW := []int{20, 21}
	for _, w := range append(widths, bigW...) {
		for _, split := range []bool{false, true} {
			for _, n := range []int{0, 1, 2, 150, 301} {
				k++
				if w >= 20 {
					// the two huge widths (2^19 / 2^20 buckets per chunk) run where there are CPUs for their 13 goroutines
					if race || runtime.NumCPU() < 8 || (n != 150 && !(c.Thorough() && n == 2)) {
						continue
					}
				} else if !c.Mine(k) {
					continue
				}
				id := fmt.Sprintf("internal/c%d/split%v/n%d", w, split, n)
				w, split, n := w, split, n
				c.Case(id, func() {
					c09internal(c, pool, w, split, n, c.Rand(id))
				})
			}
		}
	}
	c.Case("concurrent-callers", func() {
		rng := c.Rand("concurrent-callers")
		for k := 0; k < c.Pick(2, 10); k++ {
			c09concurrent(c, pool, rng)
		}
	})
	for i, n := range []int{3, 4, 9, 33, 128, 256, 300, 1025} {
		if !c.Mine(i) {
			continue
		}
		id := fmt.Sprintf("reused-slices/n%d", n)
		n := n
		c.Case(id, func() { c09reuse(c, pool, n, c.Rand(id)) })
	}
}
