package checks

import (
	"bytes"
	"fmt"
	"math/big"
	"math/rand"

	"github.com/crate-crypto/go-ipa/bandersnatch/fr"
	"github.com/crate-crypto/go-ipa/banderwagon"
	"github.com/crate-crypto/go-ipa/common"
	"github.com/crate-crypto/go-ipa/ipa"

	"verif/mon"
	"verif/ref"
)

func init() {
	register(&Check{
		ID:    "C04",
		Title: "IPA opens the committed polynomial at any field point, in or outside the domain",
		Rule: "polynomials (random, zero, constant, unit vectors, X^255, all r-1, sparse, edge values, low degree) x evaluation points {0,1,127,128,254,255,256,257,258,511,2^16,2^64,(r-1)/2,r-2,r-1,random in-domain, random out-of-domain} x claimed results {p(point) from reference interpolation+Horner; p(point)+1; 0; the value at the neighbouring point; f[point mod 256] for points >= 256; random}; " +
			"CreateIPAProof then CheckIPAProof for every claimed result; for points <= 255 the correct value is asserted to be f[point]; the reference verifier re-decides a sample; a class is (polynomial kind, point class, result class); non-trivial = polynomial not identically zero",
		Technique:        "reference-model monitor: p(point) from coefficient-form interpolation in math/big (independent of the barycentric tables) decides which claimed results must be accepted; independent verifier on a sample",
		MinEvals:         map[string]int64{"quick": 1500, "thorough": 15000},
		MinClasses:       map[string]int64{"quick": 300, "thorough": 600},
		RequiredCounters: []string{"correct_results_accepted", "wrong_results_rejected", "boundary_255_proofs", "boundary_256_proofs", "reference_verifier_decisions", "error_path_calls_before_honest_ones"},
		Assumptions:      []string{"the commitment is the library's Commit (C05's subject)", "a random forgery verifying is treated as impossible"},
		Plan: func(tier string) []Child {
			out := shardsVar(pick(tier, 12, 16), Child{Flavour: "plain", NCPU: 1})
			out[5].GOMAXPROCS, out[7].GOMAXPROCS = 100, 65 // GOMAXPROCS far above NumCPU (and above the 64 windows of the small MSMs)
			return out
		},
		Run: runC04,
	})
}

func c04points(rng *rand.Rand) (names []string, pts []*big.Int) {
	r := ref.R
	add := func(n string, v *big.Int) { names = append(names, n); pts = append(pts, v) }
	for _, k := range []int64{0, 1, 127, 128, 254, 255, 256, 257, 258, 511, 65536} {
		add(fmt.Sprint(k), big.NewInt(k))
	}
	add("2^64", new(big.Int).Lsh(bigOne, 64))
	add("(r-1)/2", new(big.Int).Rsh(r, 1))
	add("r-2", new(big.Int).Sub(r, big.NewInt(2)))
	add("r-1", new(big.Int).Sub(r, bigOne))
	add("random-in-domain", big.NewInt(int64(rng.Intn(256))))
	add("random-out-of-domain", new(big.Int).Add(big.NewInt(256), randBig(rng, new(big.Int).Sub(r, big.NewInt(256)))))
	add("random-small-out", big.NewInt(int64(256+rng.Intn(100000))))
	// multi-limb points whose low limb looks like a domain index, limb-structured and Montgomery-small points
	for _, sh := range []uint{64, 128, 192} {
		v := new(big.Int).Lsh(bigOne, sh)
		add(fmt.Sprintf("2^%d+k", sh), new(big.Int).Add(v, big.NewInt(int64(rng.Intn(256)))))
	}
	add("2^64+256", new(big.Int).Add(new(big.Int).Lsh(bigOne, 64), big.NewInt(256)))
	add("k*2^64", new(big.Int).Lsh(big.NewInt(int64(1+rng.Intn(1000))), 64))
	add("montgomery-small", new(big.Int).Mod(new(big.Int).Mul(big.NewInt(int64(1+rng.Intn(300))), rInvFr), r))
	es := edgeScalars()
	add("edge-scalar", new(big.Int).Set(es[rng.Intn(len(es))]))
	return
}

// c04otherQ: two configurations that differ only in Q (an exported field) are alive at the same time. Each one's proofs
// must be the reference's proofs for that Q, must verify under it, and openings must stay correct in whatever order
// the two configurations are first used.
func c04otherQ(c *mon.Ctx, env *Env, rng *rand.Rand, firstOther bool) {
	pool := NewPool(rng, 4)
	c2 := *env.Conf
	c2.Q = ElemFromRef(pool.P[0], nil, false)
	r2 := *env.Ref
	r2.Q = pool.P[0]
	v, _ := makePoly(rng, 0)
	lv := toFr(v)
	comm := env.Conf.Commit(lv)
	cref, _ := ElemToRef(&comm)
	z := new(big.Int).Add(big.NewInt(256), randBig(rng, ref.R))
	z.Mod(z, ref.R)
	y := ref.EvalPoly(ref.Interpolate(v), z)
	type side struct {
		name string
		conf *ipa.IPAConfig
		rc   *ref.Config
	}
	sides := []side{{"published Q", env.Conf, env.Ref}, {"other Q", &c2, &r2}}
	if firstOther {
		sides[0], sides[1] = sides[1], sides[0]
	}
	for _, sd := range sides {
		pr, err := ipa.CreateIPAProof(common.NewTranscript("c04q"), sd.conf, comm, lv, FrFromBig(z))
		if err != nil {
			c.Fail("prover-error/other-Q", "CreateIPAProof failed: "+err.Error(), nil)
			continue
		}
		var buf bytes.Buffer
		pr.Write(&buf)
		rp, _ := sd.rc.ProveIPA(ref.NewTranscript("c04q"), cref, v, z)
		if !bytes.Equal(buf.Bytes(), rp.Bytes()) {
			c.Fail("proof-differs-from-reference/"+sd.name, fmt.Sprintf("with two configurations alive that differ in Q, the proof made under the %s is not the reference's proof for that Q (first used: %s)", sd.name, sides[0].name), nil)
		}
		ok, verr := ipa.CheckIPAProof(common.NewTranscript("c04q"), sd.conf, comm, pr, FrFromBig(z), FrFromBig(y))
		if !ok || verr != nil {
			c.Fail("correct-result-rejected/"+sd.name, fmt.Sprintf("CheckIPAProof rejects p(point) under the %s (ok=%v err=%v)", sd.name, ok, verr), nil)
		}
		c.Count("openings_with_two_configurations_alive", 1)
		c.Eval("two-configurations|"+sd.name+fmt.Sprintf("|first=%v", sd.name == sides[0].name), true)
	}
}

func runC04(c *mon.Ctx) {
	env := GetEnv()
	// the first IPA calls of some processes are made with a configuration whose Q is not the published one
	c.Case("two-configurations/first", func() { c04otherQ(c, env, c.Rand("two-configurations/first"), c.Shard%2 == 1) })
	defer c.Case("two-configurations/last", func() { c04otherQ(c, env, c.Rand("two-configurations/last"), c.Shard%2 == 0) })
	npoly := c.Pick(24, 600)
	refBudget := c.Pick(3, 10)
	for p := 0; p < npoly; p++ {
		if !c.Mine(p) {
			continue
		}
		id := fmt.Sprintf("poly/%d", p)
		p := p
		c.Case(id, func() {
			rng := c.Rand(id)
			kind := p % 9
			v, kname := makePoly(rng, kind)
			if p%9 == 8 && p%2 == 0 {
				kname = "X^255"
				for i := range v {
					v[i] = new(big.Int).Exp(big.NewInt(int64(i)), big.NewInt(255), ref.R)
				}
			}
			// the polynomial lives in a larger backing array (polynomials stored back to back): spare capacity behind it
			lv, lvChk := spareFr(toFr(v))
			comm := env.Conf.Commit(lv)
			cref, _ := ElemToRef(&comm)
			coeffs := ref.Interpolate(v)
			names, pts := c04points(rng)
			for pi, z := range pts {
				correct := ref.EvalPoly(coeffs, z)
				if z.Cmp(big.NewInt(255)) <= 0 && correct.Cmp(v[z.Int64()]) != 0 {
					c.Note("reference interpolation does not reproduce f[point] - harness problem")
					return
				}
				zf := FrFromBig(z)
				// history: the caller evaluated p(z) itself through the exported coefficient function and worked in place in
				// the vector it was given (its own, by the function's signature); the opening at z must not depend on it
				if z.Cmp(big.NewInt(255)) > 0 && (pi+p)%3 == 1 {
					var bc []fr.Element
					mon.Try(func() { bc = env.Conf.PrecomputedWeights.ComputeBarycentricCoefficients(zf) })
					for i := range bc {
						bc[i].Mul(&bc[i], &lv[i%len(lv)])
					}
					c.Count("coefficient_vectors_overwritten_before_opening", 1)
				}
				snap := append([]fr.Element(nil), lv...)
				rep := Rerepresent(&comm, rng.Intn(NumRepKinds), rng)
				ptr := common.NewTranscript("c04")
				var pr ipa.IPAProof
				var err error
				if pv, st := mon.Try(func() { pr, err = ipa.CreateIPAProof(ptr, env.Conf, rep, lv, zf) }); pv != nil {
					c.Fail("panic/CreateIPAProof/point="+names[pi], fmt.Sprintf("CreateIPAProof panicked at point %s: %v", names[pi], pv), map[string]string{"stack": st})
					continue
				}
				if err != nil {
					c.Fail("prover-error/point="+names[pi], "CreateIPAProof failed: "+err.Error(), nil)
					continue
				}
				for i := range lv {
					if lv[i] != snap[i] {
						c.Fail("input-modified/CreateIPAProof", "CreateIPAProof modified the polynomial", nil)
						copy(lv, snap)
						break
					}
				}
				if !lvChk() {
					c.Fail("input-modified/CreateIPAProof/spare-capacity", "CreateIPAProof (or Commit) wrote into the memory behind the caller's polynomial slice (append on a caller's slice)", nil)
					lv, lvChk = spareFr(snap)
				}
				pch := ptr.ChallengeScalar([]byte("state"))
				if names[pi] == "255" {
					c.Count("boundary_255_proofs", 1)
				}
				if names[pi] == "256" {
					c.Count("boundary_256_proofs", 1)
				}
				// history: verifications (and a proof attempt) that end in an error come first for every third point; their
				// outcome is judged in C02, here only what they leave behind matters
				if (pi+p)%3 == 0 {
					c04poison(env, &comm, pr, lv, zf, rng)
					c.Count("error_path_calls_before_honest_ones", 1)
				}
				nb := new(big.Int).Add(z, bigOne)
				results := map[string]*big.Int{
					"correct": correct, "correct+1": ref.AddR(correct, bigOne), "zero": new(big.Int), "neighbour-point": ref.EvalPoly(coeffs, nb),
					"f[point mod 256]": v[new(big.Int).Mod(z, big.NewInt(256)).Int64()], "random": randBig(rng, ref.R),
				}
				for _, rname := range sortedKeys(results) {
					res := results[rname]
					wantAccept := res.Cmp(correct) == 0
					var ok bool
					var verr error
					vtr := common.NewTranscript("c04")
					cm := Rerepresent(&comm, rng.Intn(NumRepKinds), rng)
					prL, prR := append([]banderwagon.Element(nil), pr.L...), append([]banderwagon.Element(nil), pr.R...)
					if pv, _ := mon.Try(func() { ok, verr = ipa.CheckIPAProof(vtr, env.Conf, cm, pr, zf, FrFromBig(res)) }); pv != nil {
						c.Fail("panic/CheckIPAProof/point="+names[pi], fmt.Sprintf("CheckIPAProof panicked at point %s: %v", names[pi], pv), nil)
						continue
					}
					for i := range prL {
						if i >= len(pr.L) || i >= len(pr.R) || pr.L[i] != prL[i] || pr.R[i] != prR[i] {
							c.Fail("input-modified/CheckIPAProof/proof", "CheckIPAProof changed the caller's proof object (its L/R points are not bitwise what they were)", nil)
							copy(pr.L, prL)
							copy(pr.R, prR)
							break
						}
					}
					det := map[string]interface{}{"polynomial": kname, "point": z.Text(16), "point_class": names[pi], "claimed": rname, "claimed_value": res.Text(16), "p(point)": correct.Text(16)}
					switch {
					case wantAccept && (!ok || verr != nil):
						c.Fail("correct-result-rejected/point="+names[pi], fmt.Sprintf("CheckIPAProof rejects result = p(point) at point %s (%s polynomial): ok=%v err=%v", names[pi], kname, ok, verr), det)
					case !wantAccept && ok:
						c.Fail("wrong-result-accepted/point="+names[pi]+"/"+rname, fmt.Sprintf("CheckIPAProof accepts result %s != p(point) at point %s (%s polynomial)", rname, names[pi], kname), det)
					case wantAccept:
						c.Count("correct_results_accepted", 1)
						vch := vtr.ChallengeScalar([]byte("state"))
						if vch != pch && rname == "correct" {
							c.Fail("transcript-states-differ", "prover and verifier transcripts differ after an accepted proof", det)
						}
					default:
						c.Count("wrong_results_rejected", 1)
					}
					c.Eval(fmt.Sprintf("%s|point=%s|claimed=%s|expect-accept=%v", kname, names[pi], rname, wantAccept), kname != "zero")
				}
				// the same proof object, stored in a fixed-stride record whose slices have spare capacity, verified twice:
				// a verification must not write into the caller's proof
				{
					rec := make([]banderwagon.Element, 24)
					for i := range rec {
						rec[i] = banderwagon.Generator
					}
					copy(rec[0:8], pr.L)
					copy(rec[16:24], pr.R)
					p2 := ipa.IPAProof{L: rec[0:8], R: rec[16:24], A_scalar: pr.A_scalar}
					for pass := 0; pass < 2; pass++ {
						ok, verr := ipa.CheckIPAProof(common.NewTranscript("c04"), env.Conf, comm, p2, zf, FrFromBig(correct))
						if !ok || verr != nil {
							c.Fail(fmt.Sprintf("correct-result-rejected/stride-record/pass%d", pass), fmt.Sprintf("CheckIPAProof rejects p(point) at point %s when the proof's slices live in a larger record (pass %d): a previous verification modified the caller's proof", names[pi], pass), nil)
							break
						}
					}
					for i := 8; i < 16; i++ {
						if rec[i] != banderwagon.Generator {
							c.Fail("proof-record-modified", "CheckIPAProof wrote into the spare capacity behind proof.L", nil)
							break
						}
					}
					c.Eval(fmt.Sprintf("%s|point=%s|stride-record-twice", kname, names[pi]), kname != "zero")
				}
				// independent verifier on a sample
				if refBudget > 0 && (pi+p)%7 == 0 {
					refBudget--
					rp := &ref.IPAProof{A: FrToBig(&pr.A_scalar)}
					for j := range pr.L {
						l, _ := ElemToRef(&pr.L[j])
						r, _ := ElemToRef(&pr.R[j])
						rp.L, rp.R = append(rp.L, l), append(rp.R, r)
					}
					rok, rerr := env.Ref.VerifyIPA(ref.NewTranscript("c04"), cref, rp, z, correct, pi%2 == 0)
					c.Count("reference_verifier_decisions", 1)
					if !rok || rerr != nil {
						c.Fail("reference-verifier-rejects/point="+names[pi], fmt.Sprintf("the reference verifier rejects the library's proof for p(point) at point %s (%s polynomial)", names[pi], kname), nil)
					}
					rok2, _ := env.Ref.VerifyIPA(ref.NewTranscript("c04"), cref, rp, z, ref.AddR(correct, bigOne), false)
					if rok2 {
						c.Note("reference verifier accepts a wrong result - harness problem")
					}
				}
				if p == 0 && pi == 6 {
					c.Sample(map[string]interface{}{"polynomial": kname, "point": names[pi], "p(point)": correct.Text(16), "claimed_results": []string{"correct", "correct+1", "zero", "neighbour-point", "f[point mod 256]", "random"}})
				}
			}
			_ = banderwagon.Identity
		})
	}
}

// c04poison makes calls that must fail cleanly: proofs with too few / too many / no rounds, unequal L and R, a polynomial
// of the wrong length.
func c04poison(env *Env, comm *banderwagon.Element, pr ipa.IPAProof, lv []fr.Element, zf fr.Element, rng *rand.Rand) {
	for k := 0; k < 2; k++ {
		bad := ipa.IPAProof{A_scalar: pr.A_scalar, L: append([]banderwagon.Element(nil), pr.L...), R: append([]banderwagon.Element(nil), pr.R...)}
		switch rng.Intn(7) {
		case 0:
			bad.L, bad.R = bad.L[:7], bad.R[:7]
		case 1:
			bad.L, bad.R = append(bad.L, bad.L[0]), append(bad.R, bad.R[0])
		case 2:
			bad.L, bad.R = nil, nil
		case 3:
			bad.R = bad.R[:5]
		case 4:
			mon.Try(func() { ipa.CreateIPAProof(common.NewTranscript("c04"), env.Conf, *comm, lv[:255], zf) })
			continue
		default:
			fieldEdgeCalls(env, rng)
			continue
		}
		mon.Try(func() { ipa.CheckIPAProof(common.NewTranscript("c04"), env.Conf, *comm, bad, zf, pr.A_scalar) })
	}
}
