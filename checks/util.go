package checks

import (
	"encoding/hex"
	"fmt"
	"io"
	"math/big"
	"math/rand"
	"runtime/debug"
	"sort"
	"sync"
	"syscall"
	"unsafe"

	"github.com/crate-crypto/go-ipa/bandersnatch/fp"
	"github.com/crate-crypto/go-ipa/bandersnatch/fr"
	"github.com/crate-crypto/go-ipa/banderwagon"
	"github.com/crate-crypto/go-ipa/ipa"

	"verif/mon"
	"verif/ref"
)

// ---- raw limb conversions (independent of the library's own conversions) ----

var (
	two256  = new(big.Int).Lsh(big.NewInt(1), 256)
	rInvFr  = new(big.Int).ModInverse(two256, ref.R) // 2^-256 mod r
	rInvFp  = new(big.Int).ModInverse(two256, ref.P)
	mask64  = new(big.Int).SetUint64(^uint64(0))
	bigOne  = big.NewInt(1)
	bigZero = big.NewInt(0)
)

func limbs(v *big.Int) [4]uint64 {
	var out [4]uint64
	t := new(big.Int).Set(v)
	for i := 0; i < 4; i++ {
		out[i] = new(big.Int).And(t, mask64).Uint64()
		t.Rsh(t, 64)
	}
	return out
}

func fromLimbs(l [4]uint64) *big.Int {
	v := new(big.Int)
	for i := 3; i >= 0; i-- {
		v.Lsh(v, 64)
		v.Or(v, new(big.Int).SetUint64(l[i]))
	}
	return v
}

// FrFromBig builds the Montgomery representation of v mod r limb by limb.
func FrFromBig(v *big.Int) fr.Element {
	m := new(big.Int).Mod(v, ref.R)
	m.Mul(m, two256).Mod(m, ref.R)
	return fr.Element(limbs(m))
}

// FrToBig reads the value of a (reduced or not) Montgomery representation.
func FrToBig(e *fr.Element) *big.Int {
	v := fromLimbs([4]uint64(*e))
	return v.Mul(v, rInvFr).Mod(v, ref.R)
}

// FrRawReduced reports whether the raw limbs are < r.
func FrRawReduced(e *fr.Element) bool { return fromLimbs([4]uint64(*e)).Cmp(ref.R) < 0 }

// FpFromBig builds the Montgomery representation of v mod p.
func FpFromBig(v *big.Int) fp.Element {
	m := new(big.Int).Mod(v, ref.P)
	m.Mul(m, two256).Mod(m, ref.P)
	return fp.Element(limbs(m))
}

// FpToBig reads a base field element.
func FpToBig(e *fp.Element) *big.Int {
	v := fromLimbs([4]uint64(*e))
	return v.Mul(v, rInvFp).Mod(v, ref.P)
}

// ElemFromRef builds a library element with the projective coordinates
// (X*l : Y*l : Z*l) of p, optionally replaced by the other member of the
// Banderwagon class (-x, -y).
func ElemFromRef(p ref.Point, l *big.Int, flip bool) banderwagon.Element {
	X, Y, Z := p.X, p.Y, p.Z
	if flip {
		X, Y = ref.NegP(X), ref.NegP(Y)
	}
	if l != nil {
		X, Y, Z = ref.MulP(X, l), ref.MulP(Y, l), ref.MulP(Z, l)
	}
	return banderwagon.VerifFromCoords(FpFromBig(X), FpFromBig(Y), FpFromBig(Z))
}

// ElemToRef reads the raw coordinates of a library element. ok=false when Z=0.
func ElemToRef(e *banderwagon.Element) (ref.Point, bool) {
	X, Y, Z := e.VerifCoords()
	x, y, z := FpToBig(&X), FpToBig(&Y), FpToBig(&Z)
	if z.Sign() == 0 {
		return ref.Point{X: x, Y: y, Z: z, T: new(big.Int)}, false
	}
	t := ref.MulP(ref.MulP(x, y), ref.InvP(z))
	return ref.Point{X: x, Y: y, Z: z, T: t}, true
}

// ElemValid reports whether e is a well-formed representation of a curve point.
func ElemValid(e *banderwagon.Element) bool {
	p, ok := ElemToRef(e)
	if !ok {
		return false
	}
	return p.Affine().OnCurve()
}

// NumRepKinds is the number of representation kinds of Rerepresent.
const NumRepKinds = 10

var repLambdas = func() []*big.Int {
	var out []*big.Int
	for _, sh := range []uint{64, 128, 192} {
		v := new(big.Int).Lsh(bigOne, sh)
		out = append(out, v, new(big.Int).Add(v, bigOne), new(big.Int).Add(new(big.Int).Mul(v, big.NewInt(3)), bigOne))
	}
	out = append(out, new(big.Int).Sub(ref.P, bigOne), new(big.Int).Sub(ref.P, big.NewInt(2)), new(big.Int).Add(new(big.Int).Lsh(bigOne, 254), bigOne),
		new(big.Int).Sub(new(big.Int).Lsh(bigOne, 64), bigOne), big.NewInt(2), big.NewInt(3))
	return out
}()

// Rerepresent returns another representation of the same element (kinds 6, 7: limb-structured / Montgomery-small factors):
// kind 0 = normalised Z=1; 1 = scaled by 2; 2 = scaled by random; 3 = other
// class member, Z=1; 4 = other class member, scaled; 5 = scaled by -1.
func Rerepresent(e *banderwagon.Element, kind int, rng *rand.Rand) banderwagon.Element {
	p, ok := ElemToRef(e)
	if !ok {
		return *e
	}
	a := ref.FromAffine(p.Affine())
	switch kind % NumRepKinds {
	case 8:
		// scaled so that Y = 1 (a coordinate other than Z looks "normalised")
		af := a.Affine()
		if af.Y.Sign() != 0 {
			return ElemFromRef(a, ref.InvP(af.Y), rng.Intn(2) == 0)
		}
		return ElemFromRef(a, nil, false)
	case 9:
		// scaled so that X = 1
		af := a.Affine()
		if af.X.Sign() != 0 {
			return ElemFromRef(a, ref.InvP(af.X), rng.Intn(2) == 0)
		}
		return ElemFromRef(a, nil, true)
	case 6:
		// limb-structured rescaling factor (regular value with low limb 0 or 1 and higher limbs set, p-1, ...)
		l := repLambdas[rng.Intn(len(repLambdas))]
		return ElemFromRef(a, l, rng.Intn(2) == 0)
	case 7:
		// rescaling factor whose MONTGOMERY representation is a small integer (raw limbs [k,0,0,0])
		l := new(big.Int).Mod(new(big.Int).Mul(big.NewInt(int64(1+rng.Intn(3))), rInvFp), ref.P)
		return ElemFromRef(a, l, rng.Intn(2) == 0)
	case 0:
		return ElemFromRef(a, nil, false)
	case 1:
		return ElemFromRef(a, big.NewInt(2), false)
	case 2:
		return ElemFromRef(a, randNonZeroP(rng), false)
	case 3:
		return ElemFromRef(a, nil, true)
	case 4:
		return ElemFromRef(a, randNonZeroP(rng), true)
	default:
		return ElemFromRef(a, new(big.Int).Sub(ref.P, bigOne), false)
	}
}

func randBig(rng *rand.Rand, mod *big.Int) *big.Int {
	b := make([]byte, 40)
	rng.Read(b)
	v := new(big.Int).SetBytes(b)
	return v.Mod(v, mod)
}

func randNonZeroP(rng *rand.Rand) *big.Int {
	for {
		v := randBig(rng, ref.P)
		if v.Sign() != 0 {
			return v
		}
	}
}

func hx(b []byte) string { return hex.EncodeToString(b) }

func bigHex(v *big.Int) string { return v.Text(16) }

// ---- shared environment ----

// Env holds the library configuration, the reference configuration and a
// pool of reference points with known discrete logarithms.
type Env struct {
	Conf *ipa.IPAConfig
	Ref  *ref.Config
}

var (
	envOnce sync.Once
	env     *Env
)

// GetEnv builds (once) the library and reference configurations.
func GetEnv() *Env {
	envOnce.Do(func() {
		mk := func() {
			conf, err := ipa.NewIPASettings()
			if err != nil {
				panic(fmt.Sprintf("NewIPASettings: %v", err))
			}
			env = &Env{Conf: conf}
		}
		// creating the configuration is itself a monitored call: a hang or deadlock in it must be attributed
		if envCtx != nil {
			envCtx.Setup("startup/NewIPASettings", mk)
		} else {
			mk()
		}
		env.Ref = ref.NewConfig()
	})
	return env
}

var envCtx *mon.Ctx

// SetCtx tells the package which monitor context the process runs under (set once by the child's main).
func SetCtx(c *mon.Ctx) { envCtx = c }

// Pool is a list of reference points P_i = k_i*G with known k_i.
type Pool struct {
	K []*big.Int
	P []ref.Point // normalised (Z=1)
}

// NewPool builds n points with one reference scalar multiplication per base
// point (17) and one reference addition per pool element.
func NewPool(rng *rand.Rand, n int) *Pool {
	g := ref.Generator()
	const nb = 12
	var dk [nb]*big.Int
	var dp [nb]ref.Point
	for i := range dk {
		dk[i] = randBig(rng, ref.R)
		dp[i] = ref.Mul(g, dk[i])
	}
	pl := &Pool{}
	k := randBig(rng, ref.R)
	p := ref.Mul(g, k)
	for i := 0; i < n; i++ {
		j := rng.Intn(nb)
		k = ref.AddR(k, dk[j])
		p = ref.Add(p, dp[j])
		pl.K = append(pl.K, k)
		pl.P = append(pl.P, ref.FromAffine(p.Affine()))
	}
	return pl
}

// edgeScalars are the scalar-field edge values used across checks.
func edgeScalars() []*big.Int {
	r := ref.R
	lambda := new(big.Int).ModSqrt(new(big.Int).Sub(r, big.NewInt(2)), r) // GLV eigenvalue: lambda^2 = -2 mod r
	out := []*big.Int{
		big.NewInt(0), big.NewInt(1), big.NewInt(2), big.NewInt(3), big.NewInt(7), big.NewInt(255), big.NewInt(256), big.NewInt(257),
		new(big.Int).Sub(r, big.NewInt(1)), new(big.Int).Sub(r, big.NewInt(2)),
		new(big.Int).Rsh(r, 1), new(big.Int).Add(new(big.Int).Rsh(r, 1), bigOne),
		new(big.Int).Mod(two256, r), new(big.Int).Mod(new(big.Int).Mul(two256, two256), r),
		lambda, new(big.Int).Add(lambda, bigOne), new(big.Int).Sub(lambda, bigOne), new(big.Int).Sub(r, lambda),
	}
	// scalars whose MONTGOMERY representation is a small integer k (value k * 2^-256 mod r): code that inspects raw limbs sees "small"
	for _, k := range []int64{1, 2, 127, 128, 129, 255, 256, 32767, 32768, 32769, 65535, 65536} {
		out = append(out, new(big.Int).Mod(new(big.Int).Mul(big.NewInt(k), rInvFr), r))
	}
	out = append(out, new(big.Int).Mod(new(big.Int).Mul(new(big.Int).Sub(new(big.Int).Lsh(bigOne, 64), bigOne), rInvFr), r))
	// limb-structured values: a full limb of ones with a carry below, a zero limb above a carrying limb
	for _, h := range []string{"ffffffffffffffff", "c000000000000000", "ffffffffffffffffffffffffffffffff", "1ffffffffffffffff8100000000000000", "10000000000000001ffffffffffffffff8100000000000000", "8100000000000000"} {
		out = append(out, mustBig(h, 16))
	}
	for _, k := range []uint{8, 15, 16, 31, 32, 63, 64, 65, 127, 128, 129, 191, 192, 193, 251, 252} {
		v := new(big.Int).Lsh(bigOne, k)
		out = append(out, new(big.Int).Mod(v, r), new(big.Int).Mod(new(big.Int).Sub(v, bigOne), r), new(big.Int).Mod(new(big.Int).Add(v, bigOne), r))
	}
	return out
}

func mustBig(s string, base int) *big.Int {
	v, ok := new(big.Int).SetString(s, base)
	if !ok {
		panic("bad constant")
	}
	return v
}

// randScalar draws a scalar: mostly uniform, sometimes an edge value, a
// small value or a value with long runs of ones/zeros.
func randScalar(rng *rand.Rand) *big.Int {
	switch rng.Intn(10) {
	case 0:
		e := edgeScalars()
		return new(big.Int).Set(e[rng.Intn(len(e))])
	case 1:
		return big.NewInt(int64(rng.Intn(70000)))
	case 2:
		// runs
		v := new(big.Int)
		bit := uint(rng.Intn(2))
		for pos := 0; pos < 253; {
			run := 1 + rng.Intn(40)
			for i := 0; i < run && pos < 253; i++ {
				v.SetBit(v, pos, bit)
				pos++
			}
			bit ^= 1
		}
		return v.Mod(v, ref.R)
	default:
		return randBig(rng, ref.R)
	}
}

func newBytesReader(b []byte) *bytesReader { return &bytesReader{b: b} }

// bytesReader is a minimal io.Reader over a byte slice (EOF reported separately).
type bytesReader struct {
	b []byte
	i int
}

func (r *bytesReader) Read(p []byte) (int, error) {
	if r.i >= len(r.b) {
		return 0, errEOF
	}
	n := copy(p, r.b[r.i:])
	r.i += n
	return n, nil
}

var errEOF = io.EOF

// limbNeighbours returns values that agree with m in some limbs and differ in others: m +- 2^(64i), m with limb i
// replaced by a neighbouring limb of m, by 0, by all ones or by a random word (a comparison that mixes up limb indices
// or drops a limb misclassifies exactly such values).
func limbNeighbours(m *big.Int, rng *rand.Rand) []*big.Int {
	var out []*big.Int
	l := limbs(new(big.Int).Mod(m, two256))
	for i := 0; i < 4; i++ {
		sh := new(big.Int).Lsh(bigOne, uint(64*i))
		out = append(out, new(big.Int).Add(m, sh), new(big.Int).Sub(m, sh), new(big.Int).Add(m, new(big.Int).Sub(sh, bigOne)))
		for _, w := range []uint64{0, ^uint64(0), l[(i+1)%4], l[(i+3)%4], l[i] + 1, l[i] - 1, rng.Uint64()} {
			c := l
			c[i] = w
			out = append(out, fromLimbs(c))
		}
	}
	var res []*big.Int
	for _, v := range out {
		if v.Sign() >= 0 && v.BitLen() <= 256 {
			res = append(res, v)
		}
	}
	return res
}

// sortedKeys gives a deterministic order over a name->value table, so that sharding and per-case PRNG use are
// the same in every child and on replay.
func sortedKeys[V any](m map[string]V) []string {
	ks := make([]string, 0, len(m))
	for k := range m {
		ks = append(ks, k)
	}
	sort.Strings(ks)
	return ks
}

// nestReader delivers data in chunks and, before its at-th Read call, runs fn from inside the Read method: the reader
// handed to the library is itself a user of the library (a tee / audit reader, a reader that multiplexes several
// streams), so that a second complete call overlaps the first one on one goroutine.
type nestReader struct {
	data  []byte
	pos   int
	chunk int
	calls int
	at    int
	fn    func()
}

func (r *nestReader) Read(p []byte) (int, error) {
	if r.calls == r.at && r.fn != nil {
		f := r.fn
		r.fn = nil
		f()
	}
	r.calls++
	if r.pos >= len(r.data) {
		return 0, io.EOF
	}
	n := r.chunk
	if n <= 0 || n > len(p) {
		n = len(p)
	}
	if n > len(r.data)-r.pos {
		n = len(r.data) - r.pos
	}
	copy(p, r.data[r.pos:r.pos+n])
	r.pos += n
	return n, nil
}

// nestWriter collects what is written to it and, before its at-th Write call, runs fn from inside the Write method.
type nestWriter struct {
	buf   []byte
	calls int
	at    int
	fn    func()
}

func (w *nestWriter) Write(p []byte) (int, error) {
	if w.calls == w.at && w.fn != nil {
		f := w.fn
		w.fn = nil
		f()
	}
	w.calls++
	w.buf = append(w.buf, p...)
	return len(p), nil
}

// ColdPrelude runs, before the process creates its first configuration, the calls a program may well make first:
// kind 1 asks for a few basis points (fewer than a configuration needs), kind 2 for more than a configuration needs,
// kind 3 for two different short prefixes; kind 0 does nothing. Every returned point is compared with the reference's
// hash-and-increment sequence and then overwritten (the slice is the caller's). Returns a description or a failure text.
func ColdPrelude(kind int, rng *rand.Rand) (desc string, failure string) {
	var asks []uint64
	switch kind % 4 {
	case 0:
		return "none", ""
	case 1:
		asks = []uint64{uint64(1 + rng.Intn(255))}
	case 2:
		asks = []uint64{uint64(257 + rng.Intn(60))}
	case 3:
		asks = []uint64{uint64(1 + rng.Intn(8)), uint64(9 + rng.Intn(200)), uint64(1 + rng.Intn(8))}
	}
	desc = fmt.Sprintf("GenerateRandomPoints%v before the first NewIPASettings", asks)
	for _, k := range asks {
		pts := ipa.GenerateRandomPoints(k)
		want := ref.CRS(int(k))
		if len(pts) != int(k) {
			return desc, fmt.Sprintf("GenerateRandomPoints(%d) returned %d points", k, len(pts))
		}
		for i := range pts {
			if g, ok := ElemToRef(&pts[i]); !ok || !ref.ClassEqual(g, ref.FromAffine(want[i])) {
				return desc, fmt.Sprintf("GenerateRandomPoints(%d)[%d] is not the %d-th point of the hash-and-increment sequence", k, i, i)
			}
			pts[i].SetIdentity()
		}
	}
	return desc, ""
}

// Retainer keeps results a caller would keep (returned pointers, slices, proof objects) and checks them again after a
// number of further calls: a result handed out must not change when the library is used again (recycled slots, pooled
// backing arrays). Check functions return "" when the retained result still has its expected value.
type Retainer struct {
	q   []retained
	Cap int
}

type retained struct {
	sig   string
	check func() string
}

// Keep retains one result; when more than Cap results are held, the oldest is checked and dropped.
func (r *Retainer) Keep(c *mon.Ctx, sig string, check func() string) {
	if r.Cap == 0 {
		r.Cap = 96
	}
	r.q = append(r.q, retained{sig, check})
	for len(r.q) > r.Cap {
		r.pop(c)
	}
}

func (r *Retainer) pop(c *mon.Ctx) {
	it := r.q[0]
	r.q = r.q[1:]
	if msg := it.check(); msg != "" {
		c.Fail("retained-result-changed/"+it.sig, msg+" (a result handed out earlier changed while the caller kept it and went on using the library)", nil)
	}
	c.Count("retained_results_rechecked", 1)
}

// Flush checks everything still held (end of a case).
func (r *Retainer) Flush(c *mon.Ctx) {
	for len(r.q) > 0 {
		r.pop(c)
	}
}

// fieldEdgeCalls makes legal calls of lower-level exported functions with edge values, as an unrelated part of the same
// program might: a batch inversion of a vector containing zeros (documented: zeros stay zero), barycentric coefficients
// asked for a point of the domain (legal, the result is not used). Their results are judged in C15/C18; here they are
// history.
func fieldEdgeCalls(env *Env, rng *rand.Rand) {
	n := 1 + rng.Intn(300)
	v := make([]fr.Element, n)
	for i := range v {
		v[i] = FrFromBig(randBig(rng, ref.R))
	}
	for k := 0; k < 1+rng.Intn(3); k++ {
		v[rng.Intn(n)].SetZero()
	}
	if rng.Intn(3) == 0 {
		v[0].SetZero()
		v[n-1].SetZero()
	}
	mon.Try(func() { fr.BatchInvert(v) })
	// arguments outside what the documentation promises anything for (result unjudged, a panic is contained): negative and
	// oversized exponents, division by zero, inverse and square root of zero / a non-residue, empty and over-long byte strings
	{
		var x, y, z fr.Element
		x = v[n/2]
		e := new(big.Int).Neg(randBig(rng, ref.R))
		if rng.Intn(2) == 0 {
			e.Lsh(e, uint(rng.Intn(300)))
		}
		mon.Try(func() { z.Exp(x, e) })
		mon.Try(func() { z.Exp(x, new(big.Int).Lsh(bigOne, 300)) })
		mon.Try(func() { z.Div(&x, &y) })
		mon.Try(func() { z.Inverse(&y) })
		mon.Try(func() { z.Sqrt(&y) })
		mon.Try(func() { z.SetBytes(nil) })
		mon.Try(func() { z.SetBytes(make([]byte, 100)) })
		// reducing decoders on strings longer than a scalar (a wide hash reduced into the field), all bytes non-zero
		wide := make([]byte, 33+rng.Intn(32))
		for i := range wide {
			wide[i] = byte(1 + rng.Intn(255))
		}
		mon.Try(func() { z.SetBytesLE(wide) })
		mon.Try(func() { z.SetBytes(wide) })
		var a, b fp.Element
		a.SetUint64(uint64(rng.Int63()))
		mon.Try(func() { b.Exp(a, e) })
		mon.Try(func() { b.Inverse(&fp.Element{}) })
	}
	if env != nil && rng.Intn(2) == 0 {
		var z fr.Element
		z.SetUint64(uint64(rng.Intn(256)))
		mon.Try(func() { env.Conf.PrecomputedWeights.ComputeBarycentricCoefficients(z) })
	}
}

var constID, constGen = banderwagon.Identity, banderwagon.Generator

// constantsChanged compares the package-level elements with their values at start-up and restores them.
func constantsChanged() string {
	if banderwagon.Identity != constID || banderwagon.Generator != constGen {
		banderwagon.Identity, banderwagon.Generator = constID, constGen
		return "banderwagon.Identity or banderwagon.Generator changed"
	}
	return ""
}

// relateZ re-represents the elements of a list (same elements, other projective representations) such that the product
// of all Z coordinates is one while at least two of them are not one: one element is scaled by a random factor, a
// second one by whatever makes the product one. Elements with Z = 0 are left alone.
func relateZ(es []banderwagon.Element, rng *rand.Rand) {
	if len(es) < 2 {
		return
	}
	i := rng.Intn(len(es))
	j := (i + 1 + rng.Intn(len(es)-1)) % len(es)
	scale := func(k int, l *big.Int) {
		X, Y, Z := es[k].VerifCoords()
		es[k] = banderwagon.VerifFromCoords(FpFromBig(ref.MulP(FpToBig(&X), l)), FpFromBig(ref.MulP(FpToBig(&Y), l)), FpFromBig(ref.MulP(FpToBig(&Z), l)))
	}
	scale(i, randNonZeroP(rng))
	prod := big.NewInt(1)
	for k := range es {
		_, _, Z := es[k].VerifCoords()
		z := FpToBig(&Z)
		if z.Sign() == 0 {
			return
		}
		prod = ref.MulP(prod, z)
	}
	scale(j, ref.InvP(prod))
}

// roBytes returns a copy of b that lives on a page of READ-ONLY memory (mmap + mprotect): a callee that writes to its
// input - even transiently, restoring it before it returns - faults. callRO runs f with faults turned into panics and
// reports whether f faulted. The pages are never unmapped (a few kB per process).
func roBytes(b []byte) []byte {
	n := len(b)
	pg := syscall.Getpagesize()
	sz := (n/pg + 1) * pg
	mem, err := syscall.Mmap(-1, 0, sz, syscall.PROT_READ|syscall.PROT_WRITE, syscall.MAP_ANON|syscall.MAP_PRIVATE)
	if err != nil {
		return nil
	}
	// the data ends at the end of the mapping, so that a read or write past the end faults as well
	off := sz - n
	copy(mem[off:], b)
	if syscall.Mprotect(mem, syscall.PROT_READ) != nil {
		return nil
	}
	return mem[off : off+n : off+n]
}

func callRO(f func()) (faulted bool, msg string) {
	old := debug.SetPanicOnFault(true)
	defer debug.SetPanicOnFault(old)
	defer func() {
		if r := recover(); r != nil {
			faulted, msg = true, fmt.Sprint(r)
		}
	}()
	f()
	return false, ""
}

var roBudget = 600

// roBytesBudget is roBytes with a per-process budget (each call maps a page); beyond it the slice itself is returned.
func roBytesBudget(b []byte) []byte {
	if roBudget <= 0 || len(b) == 0 {
		return b
	}
	roBudget--
	if rb := roBytes(b); rb != nil {
		return rb
	}
	return b
}

// roElem / roFr put a copy of an element / a scalar on a read-only memory page and return a pointer to it: an operation
// that writes to an operand it should only read - also transiently, restoring it before it returns - faults.
func roElem(e *banderwagon.Element) *banderwagon.Element {
	raw := unsafe.Slice((*byte)(unsafe.Pointer(e)), unsafe.Sizeof(*e))
	rb := roBytes(raw)
	if rb == nil {
		return nil
	}
	return (*banderwagon.Element)(unsafe.Pointer(&rb[0]))
}

func roFr(s *fr.Element) *fr.Element {
	raw := unsafe.Slice((*byte)(unsafe.Pointer(s)), unsafe.Sizeof(*s))
	rb := roBytes(raw)
	if rb == nil {
		return nil
	}
	return (*fr.Element)(unsafe.Pointer(&rb[0]))
}
