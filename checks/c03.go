package checks

import (
	"bytes"
	"fmt"
	"math/big"
	"math/rand"
	"runtime"

	"github.com/crate-crypto/go-ipa/common"
	"github.com/crate-crypto/go-ipa/ipa"

	"verif/mon"
	"verif/ref"
)

func init() {
	register(&Check{
		ID:    "C03",
		Title: "Proof bytes are a deterministic, spec-conformant function of the inputs",
		Rule: "a seed-determined list of opening sets (n in {1,2,3,4,5,7,8,9,11,12,16,17,31,33,48,64,100,257,300}, ten index patterns incl. all indices different from z_0, >=11 openings so that more than 1024 bytes are pending in the transcript, all polynomial kinds, equal polynomials; exactly 255/256/2x256/2x384 openings at one evaluation point; 4099 openings) and IPA instances (in-domain and out-of-domain points) is proven in every child " +
			"(NumCPU {1,3,8,16} x GOMAXPROCS {1,4}; thorough 1..16 x {1,2,4,16}) two to four times each: two case orders and immediate repetitions, each with a different commitment representation/pointer pattern and H7 delay seed; digests of (proof bytes, next transcript challenge) must agree within the child and - compared by the driver - across all children; " +
			"half of the children call GenerateRandomPoints (fewer / more points than a configuration needs, checked against the reference CRS) before the process creates its first configuration; a tier-sized share of the cases is also proven by the independent reference prover and compared byte for byte; a class is (n class, index pattern, polynomial mix, NumCPU, GOMAXPROCS, execution slot); non-trivial = n >= 2 or IPA instance",
		Technique:        "differential runtime monitor across configurations/schedules/representations/history positions (digests compared by the driver) + byte-for-byte comparison with an independent reference prover (math/big)",
		MinEvals:         map[string]int64{"quick": 700, "thorough": 15000},
		MinClasses:       map[string]int64{"quick": 200, "thorough": 1500},
		RequiredCounters: []string{"cases_compared_across_configs", "proofs_equal_to_reference_prover", "ipa_proofs_equal_to_reference_prover", "hook.multiproof.group.send", "cases_over_1024_pending_bytes", "children_with_calls_before_first_configuration"},
		Assumptions:      []string{"the reference prover reproduces both published proof vectors (544-byte IPA proof, 576-byte multiproof) and their transcript states", "NumCPU above 16 cannot be produced here"},
		Plan: func(tier string) []Child {
			var out []Child
			if tier == "quick" {
				cfg := [][2]int{{1, 1}, {1, 4}, {3, 1}, {3, 64}, {16, 4}, {8, 1}}
				for i, k := range cfg {
					out = append(out, Child{Flavour: "plain", NCPU: k[0], GOMAXPROCS: k[1], Shard: i, NShards: len(cfg), Params: map[string]string{"sched": fmt.Sprint(1 + i%2), "prelude": fmt.Sprint(i % 4)}})
				}
				return out
			}
			i := 0
			for w := 1; w <= 16; w++ {
				for _, g := range []int{1, 2, 4, 16} {
					if (w+g)%3 == 0 || w == 1 || w == 16 {
						i++
					}
				}
			}
			total := i
			i = 0
			for w := 1; w <= 16; w++ {
				for _, g := range []int{1, 2, 4, 16} {
					if (w+g)%3 == 0 || w == 1 || w == 16 {
						out = append(out, Child{Flavour: "plain", NCPU: w, GOMAXPROCS: g, Shard: i, NShards: total, Params: map[string]string{"sched": fmt.Sprint(i % 3), "prelude": fmt.Sprint(i % 4)}})
						i++
					}
				}
			}
			return out
		},
		Run: runC03,
	})
}

type c03case struct {
	id        string
	n         int
	pat       int
	ipa       bool
	zIPA      *big.Int
	forceKind int // 0 = free choice; otherwise the polynomial kind of every opened polynomial
	alwaysRef bool
}

func c03cases(thorough bool) []c03case {
	var out []c03case
	ns := []int{1, 2, 3, 4, 5, 7, 8, 9, 11, 12, 16, 17, 31, 33, 48, 64, 100, 257, 300}
	k := 0
	for _, n := range ns {
		pats := []int{k % 10, (k + 3) % 10, (k + 7) % 10}
		if thorough {
			pats = []int{0, 1, 2, 3, 4, 5, 6, 7, 8, 9}
		}
		if n >= 100 && !thorough {
			pats = pats[:2]
		}
		for _, p := range pats {
			out = append(out, c03case{id: fmt.Sprintf("multi/n%d/%s", n, indexPatternNames[p]), n: n, pat: p})
		}
		k++
	}
	// single / few openings of limb-structured polynomials: with one opening r^0 = 1, so the committed quotient has the
	// structured coefficients themselves (linear polynomial with slope 2^64-1 => constant quotient 2^64-1)
	for i, k := range []int{9, 9, 10, 9} {
		out = append(out, c03case{id: fmt.Sprintf("multi/limb-structured/%d", i), n: []int{1, 1, 2, 3}[i], pat: 9, forceKind: k, alwaysRef: true})
	}
	// statements whose polynomials are all constant (g = 0, D = identity), then mixed ones, then constants again
	out = append(out,
		c03case{id: "multi/all-constant/a", n: 3, pat: 1, forceKind: 2, alwaysRef: true},
		c03case{id: "multi/all-constant/zero", n: 2, pat: 1, forceKind: 1, alwaysRef: true},
		c03case{id: "multi/constant-and-random", n: 4, pat: 1, forceKind: -1, alwaysRef: true},
		c03case{id: "multi/all-constant/b", n: 5, pat: 9, forceKind: 4, alwaysRef: true})
	// multiplicities: exactly 255 / 256 / 512 openings at one evaluation point (per-point counters, per-point batches), and a
	// statement beyond 4096 openings (powers of r, chunked helpers), not a multiple of any small task count
	out = append(out,
		c03case{id: "multi/multiplicity/256-at-one-point", n: 256, pat: 0, alwaysRef: true},
		c03case{id: "multi/multiplicity/255-at-255", n: 255, pat: 4, alwaysRef: true},
		c03case{id: "multi/multiplicity/2x256", n: 512, pat: 2, alwaysRef: true},
		c03case{id: "multi/multiplicity/2x384", n: 768, pat: 3},
		c03case{id: "multi/large/4099", n: 4099, pat: 7, alwaysRef: true})
	if thorough {
		out = append(out, c03case{id: "multi/large/65537", n: 65537, pat: 9, alwaysRef: true}) // beyond 16-bit counts
	}
	r := ref.R
	names := []string{"0", "255", "256", "2101", "r-1", "2^200"}
	zs := []*big.Int{big.NewInt(0), big.NewInt(255), big.NewInt(256), big.NewInt(2101), new(big.Int).Sub(r, bigOne), new(big.Int).Lsh(bigOne, 200)}
	for i, name := range names {
		out = append(out, c03case{id: "ipa/point-" + name, ipa: true, zIPA: zs[i]})
	}
	return out
}

func runC03(c *mon.Ctx) {
	// what the process did before it created its configuration must not matter: some children ask for basis points first
	pk := 0
	fmt.Sscan(c.Config["prelude"], &pk)
	c.Case("prelude", func() {
		desc, failure := ColdPrelude(pk, c.Rand("prelude"))
		if failure != "" {
			c.Fail("wrong-result/GenerateRandomPoints", failure+" ("+desc+")", nil)
		}
		if pk%4 != 0 {
			c.Count("children_with_calls_before_first_configuration", 1)
		}
	})
	env := GetEnv()
	w, gmp := runtime.NumCPU(), runtime.GOMAXPROCS(0)
	mode := 1
	fmt.Sscan(c.Config["sched"], &mode)
	mon.InstallSched(mode, c.Seed+int64(c.Shard))
	cases := c03cases(c.Thorough())
	refEvery := c.Pick(2, 1) // every refEvery-th case is also proven by the reference (in the shard that owns it)
	local := map[string]string{}
	exec := 0
	runCase := func(cs c03case, slot int) {
		exec++
		c.Case(fmt.Sprintf("%s#slot%d", cs.id, slot), func() {
			rng := c.Rand(cs.id) // the statement is a function of the case only
			var digest string
			var pbytes []byte
			var s *statement
			if cs.ipa {
				polys := makePolys(env, rng, 1, 0)
				tr := common.NewTranscript("ipa-c03")
				rep := Rerepresent(&polys[0].comm, slot+c.Shard, rng)
				mon.SchedReseed(uint64(slot*131 + c.Shard))
				pr, err := ipa.CreateIPAProof(tr, env.Conf, rep, polys[0].lv, FrFromBig(cs.zIPA))
				if err != nil {
					c.Fail("prover-error/ipa", "CreateIPAProof failed: "+err.Error(), nil)
					return
				}
				var buf bytes.Buffer
				pr.Write(&buf)
				ch := tr.ChallengeScalar([]byte("state"))
				pbytes = buf.Bytes()
				digest = sha(pbytes) + ":" + FrToBig(&ch).Text(16)
				if slot == 0 && c.Mine(c03index(cases, cs.id)) {
					rtr := ref.NewTranscript("ipa-c03")
					rp, _ := env.Ref.ProveIPA(rtr, polys[0].cref, polys[0].v, cs.zIPA)
					rch := rtr.ChallengeScalar([]byte("state"))
					if !bytes.Equal(rp.Bytes(), pbytes) || rch.Cmp(FrToBig(&ch)) != 0 {
						c.Fail("ipa-bytes-differ-from-reference-prover", fmt.Sprintf("CreateIPAProof bytes or transcript state differ from the reference prover (point %s)", cs.zIPA.Text(16)), map[string]string{"library": hx(pbytes), "reference": hx(rp.Bytes())})
					} else {
						c.Count("ipa_proofs_equal_to_reference_prover", 1)
					}
				}
			} else {
				m := 1 + rng.Intn(6)
				var forced []int
				if cs.forceKind > 0 {
					m = 1 + rng.Intn(2)
					forced = []int{cs.forceKind, cs.forceKind}
				}
				if cs.forceKind == -1 {
					m = 3
					forced = []int{2, 0, 1} // constant first (lowest index with the consecutive pattern), then random, then zero
				}
				polys := makePolys(env, rng, m, forced...)
				s = genStatement(env, rng, cs.n, cs.pat, polys)
				// representation and pointer pattern differ per execution slot and child: the bytes must not depend on them
				rr := rand.New(rand.NewSource(int64(slot*1000 + c.Shard)))
				s.materialise(rr, slot+c.Shard, slot+2*c.Shard)
				mon.SchedReseed(uint64(slot*977 + c.Shard*31 + exec))
				mon.SchedTake()
				var pch *big.Int
				var err error
				_, pbytes, pch, err = s.prove(env)
				c.RecordOrders("multiproof.group.send")
				if err != nil {
					c.Fail("prover-error", "CreateMultiProof failed: "+err.Error(), s.describe())
					return
				}
				digest = sha(pbytes) + ":" + pch.Text(16)
				if len(s.label)+cs.n*99 > 1024 && slot == 0 {
					c.Count("cases_over_1024_pending_bytes", 1)
				}
				if slot == 0 && (cs.n <= 64 || cs.alwaysRef) && ((c03index(cases, cs.id)%refEvery == 0 && c.Mine(c03index(cases, cs.id)/refEvery)) || (cs.alwaysRef && c.Mine(c03index(cases, cs.id)))) {
					rtr := ref.NewTranscript(s.label)
					rp := env.Ref.ProveMulti(rtr, s.refCs(), s.refFs(), s.refZs())
					rch := rtr.ChallengeScalar([]byte("state"))
					if !bytes.Equal(rp.Bytes(), pbytes) || rch.Cmp(pch) != 0 {
						det := s.describe()
						det["library_proof"] = hx(pbytes)
						det["reference_proof"] = hx(rp.Bytes())
						sig := "bytes-differ-from-reference-prover"
						if bytes.Equal(rp.Bytes()[:32], pbytes[:32]) {
							sig += "/D-equal"
						} else {
							sig += "/D-differs"
						}
						c.Fail(sig, fmt.Sprintf("CreateMultiProof bytes or transcript state differ from the independent reference prover (n=%d, %s)", cs.n, s.idxKind), det)
					} else {
						c.Count("proofs_equal_to_reference_prover", 1)
					}
				}
			}
			if prev, ok := local[cs.id]; ok && prev != digest {
				c.Fail("not-deterministic-within-process", fmt.Sprintf("case %s produced different proof bytes at two positions of the call history / under two representations or schedules", cs.id), map[string]string{"first": prev, "now": digest})
			}
			local[cs.id] = digest
			c.Digest(cs.id, digest)
			kind := "ipa"
			nt := true
			if s != nil {
				kind = fmt.Sprintf("%s|idx=%s|polys=%d", nClass(cs.n), s.idxKind, len(s.polys))
				nt = cs.n >= 2
			}
			c.Eval(fmt.Sprintf("%s|W=%d|P=%d|slot%d", kind, w, gmp, slot), nt)
			if slot == 0 && exec == 3 && s != nil {
				d := s.describe()
				d["digest"] = digest
				c.Sample(d)
			}
		})
	}
	// order A: forward, each case twice in a row
	for i, cs := range cases {
		runCase(cs, 0)
		if c.Thorough() || i%2 == c.Shard%2 {
			runCase(cs, 1)
		}
	}
	// order B: backward, interleaved differently
	for i := len(cases) - 1; i >= 0; i-- {
		runCase(cases[i], 2)
	}
	if c.Thorough() {
		for i := 0; i < len(cases); i += 2 {
			runCase(cases[i], 3)
		}
		for i := 1; i < len(cases); i += 2 {
			runCase(cases[i], 3)
		}
	}
}

func c03index(cases []c03case, id string) int {
	for i, cs := range cases {
		if cs.id == id {
			return i
		}
	}
	return 0
}
