package checks

import (
	"bytes"
	"crypto/sha256"
	"encoding/binary"
	"fmt"
	"math/big"
	"math/rand"

	multiproof "github.com/crate-crypto/go-ipa"
	"github.com/crate-crypto/go-ipa/bandersnatch"
	"github.com/crate-crypto/go-ipa/bandersnatch/fp"
	"github.com/crate-crypto/go-ipa/bandersnatch/fr"
	"github.com/crate-crypto/go-ipa/banderwagon"
	"github.com/crate-crypto/go-ipa/common"
	"github.com/crate-crypto/go-ipa/common/parallel"
	"github.com/crate-crypto/go-ipa/ipa"

	"verif/ref"
)

// The operation mix shared by C12 (executed concurrently) and C13 (executed
// as sequential histories). Every instance (kind, k) is a pure function of
// (seed, kind, k): it builds its own private argument objects, calls the
// library through the exported API and returns a digest of everything the
// call returned.

const (
	opCommit = iota
	opProve
	opVerify
	opIPA
	opMSM
	opElement
	opBatch
	opTranscript
	opFrPool
	opCodec
	opSqrt
	opExecute
	opCRS
	opNewSettings
	opVerifyMalformed
	opProofIO
	opSharedInputs
	opCurveAPI
	numOpKinds
)

var opNames = []string{"Commit", "CreateMultiProof", "CheckMultiProof", "Create+CheckIPAProof", "MultiScalar/MultiExp", "element-ops", "batch-helpers", "transcript", "fr-bigint-pool", "point-codec", "fp-sqrt", "parallel.Execute", "GenerateRandomPoints", "NewIPASettings", "CheckMultiProof(malformed)", "proof-read-write-reuse", "shared-read-only-inputs", "curve-level-api"}

type opCtx struct {
	env    *Env
	seed   int64
	base   *Pool
	polysV [][]*big.Int // shared immutable reference values; every op makes private library copies
	// objects that several goroutines pass to read-only APIs at the same time (C12) - never written by the harness after creation
	sharedScalars []fr.Element
	sharedPoints  []banderwagon.Element
	sharedPoly    []fr.Element
	sharedBytes   [][]byte // encodings that several goroutines decode at the same time (decoders only read their input)
	// inputModified is called when an operation finds a caller-supplied input changed after a call (C13); nil = not checked
	inputModified func(sig, msg string)
}

func newOpCtx(env *Env, seed int64, rng *rand.Rand) *opCtx {
	o := &opCtx{env: env, seed: seed, base: NewPool(rng, 48)}
	for k := 0; k < 9; k++ {
		v, _ := makePoly(rng, k)
		o.polysV = append(o.polysV, v)
	}
	for i := 0; i < 8; i++ {
		o.sharedScalars = append(o.sharedScalars, FrFromBig(randScalar(rng)))
		norm := ElemFromRef(o.base.P[i], nil, false)
		o.sharedPoints = append(o.sharedPoints, Rerepresent(&norm, i, rng))
	}
	o.sharedPoly = toFr(o.polysV[0])
	// byte strings handed to decoders by several goroutines at once: canonical little-endian scalars, a wide string for
	// the reducing decoders, point encodings (built with the reference, no library call)
	for i := 0; i < 3; i++ {
		le := ref.LE32(randScalar(rng))
		o.sharedBytes = append(o.sharedBytes, append([]byte(nil), le[:]...))
	}
	wide := make([]byte, 64)
	rng.Read(wide)
	o.sharedBytes = append(o.sharedBytes, wide)
	for i := 0; i < 2; i++ {
		pe := ref.Serialize(o.base.P[10+i])
		o.sharedBytes = append(o.sharedBytes, append([]byte(nil), pe[:]...))
	}
	return o
}

// decodeShared runs every decoder on the shared byte strings (read-only use of the inputs) and digests the results.
func (o *opCtx) decodeShared(d *digester) {
	for _, b := range o.sharedBytes {
		var s1, s2, s3 fr.Element
		s1.SetBytesLE(b)
		s2.SetBytes(b)
		_, err := s3.SetBytesLECanonical(b)
		b1, b2 := s1.Bytes(), s2.Bytes()
		d.add(b1[:])
		d.add(b2[:])
		d.addf("canonical err=%v", err != nil)
		if rs, err := common.ReadScalar(bytes.NewReader(b)); err == nil && rs != nil {
			rb := rs.Bytes()
			d.add(rb[:])
		} else {
			d.addf("ReadScalar err")
		}
		var e banderwagon.Element
		if err := e.SetBytes(b[:32]); err == nil {
			d.elem(&e)
		} else {
			d.addf("SetBytes err")
		}
		if p, err := common.ReadPoint(bytes.NewBuffer(b)); err == nil && p != nil {
			d.elem(p)
		} else {
			d.addf("ReadPoint err")
		}
	}
}

func (o *opCtx) rng(kind, k int) *rand.Rand {
	h := sha256.Sum256([]byte(fmt.Sprintf("op|%d|%d|%d", o.seed, kind, k)))
	return rand.New(rand.NewSource(int64(binary.LittleEndian.Uint64(h[:8]))))
}

func (o *opCtx) modified(sig, msg string) {
	if o.inputModified != nil {
		o.inputModified(sig, msg)
	}
}

func frEq(a, b []fr.Element) bool {
	if len(a) != len(b) {
		return false
	}
	for i := range a {
		if a[i] != b[i] {
			return false
		}
	}
	return true
}

// spare* return a copy of src placed at the start of a larger backing array whose tail (beyond len, within cap) holds
// sentinels; check reports whether that tail is untouched. A callee that appends to a caller's slice writes there.
func spareElems(src []banderwagon.Element) ([]banderwagon.Element, func() bool) {
	const extra = 12
	arena := make([]banderwagon.Element, len(src)+extra)
	copy(arena, src)
	for i := len(src); i < len(arena); i++ {
		arena[i] = banderwagon.Generator
	}
	return arena[:len(src)], func() bool {
		for i := len(src); i < len(arena); i++ {
			if arena[i] != banderwagon.Generator {
				return false
			}
		}
		return true
	}
}

func spareFr(src []fr.Element) ([]fr.Element, func() bool) {
	const extra = 12
	arena := make([]fr.Element, len(src)+extra)
	copy(arena, src)
	for i := len(src); i < len(arena); i++ {
		arena[i] = fr.Element{0x5e, 0x5e, 0x5e, 0x5e}
	}
	return arena[:len(src)], func() bool {
		for i := len(src); i < len(arena); i++ {
			if arena[i] != (fr.Element{0x5e, 0x5e, 0x5e, 0x5e}) {
				return false
			}
		}
		return true
	}
}

func spareBytes(src []byte) ([]byte, func() bool) {
	const extra = 40
	arena := make([]byte, len(src)+extra)
	copy(arena, src)
	for i := len(src); i < len(arena); i++ {
		arena[i] = 0xA7
	}
	return arena[:len(src)], func() bool {
		for i := len(src); i < len(arena); i++ {
			if arena[i] != 0xA7 {
				return false
			}
		}
		return true
	}
}

type digester struct{ h bytes.Buffer }

func (d *digester) add(b []byte) { d.h.Write(b); d.h.WriteByte(0xff) }
func (d *digester) addf(format string, a ...interface{}) {
	fmt.Fprintf(&d.h, format, a...)
	d.h.WriteByte(0xff)
}
func (d *digester) elem(e *banderwagon.Element) { b := e.Bytes(); d.add(b[:]) }
func (d *digester) sum() string {
	s := sha256.Sum256(d.h.Bytes())
	return hx(s[:10])
}

// privPoly returns a private library copy of shared polynomial i.
func (o *opCtx) privPoly(i int) []fr.Element { return toFr(o.polysV[i%len(o.polysV)]) }

// buildStatement creates private argument objects for a multiproof with n openings.
func (o *opCtx) buildStatement(rng *rand.Rand, n int) (label string, Cs []*banderwagon.Element, fs [][]fr.Element, zs []uint8, ys []*fr.Element) {
	label = []string{"", "vt", "c12"}[rng.Intn(3)]
	m := 1 + rng.Intn(3)
	polys := make([][]fr.Element, m)
	comms := make([]banderwagon.Element, m)
	for i := range polys {
		polys[i] = o.privPoly(rng.Intn(len(o.polysV)))
		comms[i] = o.env.Conf.Commit(polys[i])
	}
	zs = genIndices(rng, n, rng.Intn(10))
	for i := 0; i < n; i++ {
		j := rng.Intn(m)
		c := Rerepresent(&comms[j], rng.Intn(NumRepKinds), rng)
		Cs = append(Cs, &c)
		fs = append(fs, polys[j]) // openings of one polynomial share its slice (as a Verkle client does)
		y := polys[j][zs[i]]
		ys = append(ys, &y)
	}
	return
}

// exec runs one operation instance and returns the digest of its outputs.
func (o *opCtx) exec(kind, k int) string {
	rng := o.rng(kind, k)
	env := o.env
	var d digester
	d.addf("%s/%d", opNames[kind], k)
	switch kind {
	case opCommit:
		v := make([]fr.Element, 1+rng.Intn(256))
		for i := range v {
			if rng.Intn(4) != 0 || len(v) < 6 {
				v[i] = FrFromBig(randScalar(rng))
			}
		}
		v, vSpare := spareFr(v)
		snap := append([]fr.Element(nil), v...)
		c := env.Conf.Commit(v)
		d.elem(&c)
		c2 := env.Conf.PrecompMSM.MSM(v)
		d.elem(&c2)
		if !frEq(v, snap) || !vSpare() {
			o.modified("input-modified/Commit", "Commit changed the caller's scalar vector (or wrote into its spare capacity)")
		}
	case opProve:
		n := []int{1, 2, 5, 17, 18, 35, 64}[rng.Intn(7)]
		label, Cs, fs, zs, _ := o.buildStatement(rng, n)
		var spareChecks []func() bool
		seen := map[*fr.Element][]fr.Element{}
		for i := range fs {
			if v, ok := seen[&fs[i][0]]; ok {
				fs[i] = v
				continue
			}
			key := &fs[i][0]
			v, chk := spareFr(fs[i])
			seen[key] = v
			fs[i] = v
			spareChecks = append(spareChecks, chk)
		}
		zs, zChk := spareBytes(zs)
		spareChecks = append(spareChecks, zChk)
		snapF := make([][]fr.Element, len(fs))
		for i := range fs {
			snapF[i] = append([]fr.Element(nil), fs[i]...)
		}
		snapZ := append([]uint8(nil), zs...)
		before := make([]ref.Point, n)
		for i := range Cs {
			before[i], _ = ElemToRef(Cs[i])
		}
		tr := common.NewTranscript(label)
		pr, err := multiproof.CreateMultiProof(tr, env.Conf, Cs, fs, zs)
		if err != nil {
			d.addf("error:%v", err)
			break
		}
		var buf bytes.Buffer
		pr.Write(&buf)
		d.add(buf.Bytes())
		ch := tr.ChallengeScalar([]byte("state"))
		cb := ch.Bytes()
		d.add(cb[:])
		for i := range fs {
			if !frEq(fs[i], snapF[i]) {
				o.modified("input-modified/CreateMultiProof/polynomial", fmt.Sprintf("CreateMultiProof changed the caller's polynomial of opening %d (n=%d, zs=%v)", i, n, zs))
				break
			}
		}
		if !bytes.Equal(zs, snapZ) {
			o.modified("input-modified/CreateMultiProof/zs", "CreateMultiProof changed the evaluation indices")
		}
		for _, chk := range spareChecks {
			if !chk() {
				o.modified("input-modified/CreateMultiProof/spare-capacity", "CreateMultiProof wrote into the spare capacity of a caller's slice")
				break
			}
		}
		for i := range Cs {
			g, ok := ElemToRef(Cs[i])
			if !ok || !ref.ClassEqual(g, before[i]) {
				o.modified("input-modified/CreateMultiProof/commitment", fmt.Sprintf("commitment %d is no longer Equal to its former value after CreateMultiProof", i))
				break
			}
		}
	case opVerify:
		n := []int{1, 3, 9, 20}[rng.Intn(4)]
		label, Cs, fs, zs, ys := o.buildStatement(rng, n)
		pr, err := multiproof.CreateMultiProof(common.NewTranscript(label), env.Conf, Cs, fs, zs)
		if err != nil {
			d.addf("error:%v", err)
			break
		}
		bad := rng.Intn(3) == 0
		if bad {
			one := fr.One()
			ys[rng.Intn(n)].Add(ys[0], &one)
		}
		// the verifier gets the commitments in representations of its own (the prover normalised these objects in place):
		// verification must leave them bitwise as they are
		for i := range Cs {
			already := false
			for j := 0; j < i; j++ {
				already = already || Cs[j] == Cs[i]
			}
			if !already {
				*Cs[i] = Rerepresent(Cs[i], rng.Intn(NumRepKinds), rng)
			}
		}
		snapC := make([]banderwagon.Element, n)
		for i := range Cs {
			snapC[i] = *Cs[i]
		}
		snapY := make([]fr.Element, n)
		for i := range ys {
			snapY[i] = *ys[i]
		}
		snapZ := append([]uint8(nil), zs...)
		var lChk, rChk func() bool
		pr.IPA.L, lChk = spareElems(pr.IPA.L)
		pr.IPA.R, rChk = spareElems(pr.IPA.R)
		zs, zChk := spareBytes(zs)
		snapZ = append([]uint8(nil), zs...)
		snapL := append([]banderwagon.Element(nil), pr.IPA.L...)
		snapR := append([]banderwagon.Element(nil), pr.IPA.R...)
		snapD, snapA := pr.D, pr.IPA.A_scalar
		tr := common.NewTranscript(label)
		ok, err := multiproof.CheckMultiProof(tr, env.Conf, pr, Cs, ys, zs)
		if !lChk() || !rChk() || !zChk() {
			o.modified("input-modified/CheckMultiProof/spare-capacity", "CheckMultiProof wrote into the spare capacity of the proof's L/R slices or of zs (append on a caller's slice)")
		}
		d.addf("ok=%v err=%v", ok, err != nil)
		ch := tr.ChallengeScalar([]byte("state"))
		cb := ch.Bytes()
		d.add(cb[:])
		for i := range Cs {
			if *Cs[i] != snapC[i] {
				o.modified("input-modified/CheckMultiProof/commitment", "CheckMultiProof changed a commitment")
				break
			}
			if *ys[i] != snapY[i] {
				o.modified("input-modified/CheckMultiProof/ys", "CheckMultiProof changed a claimed value")
				break
			}
		}
		if !bytes.Equal(zs, snapZ) {
			o.modified("input-modified/CheckMultiProof/zs", "CheckMultiProof changed the evaluation indices")
		}
		if pr.D != snapD || pr.IPA.A_scalar != snapA {
			o.modified("input-modified/CheckMultiProof/proof", "CheckMultiProof changed the proof object")
		}
		for j := range snapL {
			if pr.IPA.L[j] != snapL[j] || pr.IPA.R[j] != snapR[j] {
				o.modified("input-modified/CheckMultiProof/proof", "CheckMultiProof changed the proof's L/R arrays")
				break
			}
		}
	case opIPA:
		a, aChk := spareFr(o.privPoly(rng.Intn(len(o.polysV))))
		snap := append([]fr.Element(nil), a...)
		comm := env.Conf.Commit(a)
		var z *big.Int
		if rng.Intn(2) == 0 {
			z = big.NewInt(int64(rng.Intn(256)))
		} else {
			z = new(big.Int).Add(big.NewInt(256), randBig(rng, new(big.Int).Sub(ref.R, big.NewInt(256))))
		}
		zf := FrFromBig(z)
		tr := common.NewTranscript("ipa")
		pr, err := ipa.CreateIPAProof(tr, env.Conf, comm, a, zf)
		if err != nil {
			d.addf("error:%v", err)
			break
		}
		var buf bytes.Buffer
		pr.Write(&buf)
		d.add(buf.Bytes())
		if !frEq(a, snap) || !aChk() {
			o.modified("input-modified/CreateIPAProof", "CreateIPAProof changed the polynomial (or wrote into its spare capacity)")
		}
		// result through the public barycentric route
		var y fr.Element
		if z.Cmp(big.NewInt(256)) < 0 {
			y = a[z.Int64()]
		} else {
			b := env.Conf.PrecomputedWeights.ComputeBarycentricCoefficients(zf)
			y, _ = ipa.InnerProd(a, b)
		}
		var lChk, rChk func() bool
		pr.L, lChk = spareElems(pr.L)
		pr.R, rChk = spareElems(pr.R)
		snapL := append([]banderwagon.Element(nil), pr.L...)
		snapR := append([]banderwagon.Element(nil), pr.R...)
		ok, err := ipa.CheckIPAProof(common.NewTranscript("ipa"), env.Conf, comm, pr, zf, y)
		d.addf("ok=%v err=%v", ok, err != nil)
		if !lChk() || !rChk() {
			o.modified("input-modified/CheckIPAProof/spare-capacity", "CheckIPAProof wrote into the spare capacity of the proof's L/R slices (append on a caller's slice)")
		}
		for j := range snapL {
			if pr.L[j] != snapL[j] || pr.R[j] != snapR[j] {
				o.modified("input-modified/CheckIPAProof/proof", "CheckIPAProof changed the proof's L/R arrays")
				break
			}
		}
		// a second configuration that differs only in Q (an exported field), alive at the same time: for a dense
		// polynomial opened outside the domain every L_i/R_i carries a non-zero multiple of Q, so a proof made under one
		// Q verifies under that Q only
		dense := z.Cmp(big.NewInt(256)) >= 0 && ok && err == nil
		for i := range a {
			if a[i].IsZero() {
				dense = false
				break
			}
		}
		if dense {
			c2 := *env.Conf
			c2.Q = ElemFromRef(o.base.P[(k+5)%len(o.base.P)], nil, false)
			pr2, err2 := ipa.CreateIPAProof(common.NewTranscript("ipa"), &c2, comm, a, zf)
			if err2 != nil {
				d.addf("other-Q error")
				break
			}
			var buf2 bytes.Buffer
			pr2.Write(&buf2)
			d.add(buf2.Bytes())
			own, _ := ipa.CheckIPAProof(common.NewTranscript("ipa"), &c2, comm, pr2, zf, y)
			crossA, _ := ipa.CheckIPAProof(common.NewTranscript("ipa"), env.Conf, comm, pr2, zf, y)
			crossB, _ := ipa.CheckIPAProof(common.NewTranscript("ipa"), &c2, comm, pr, zf, y)
			d.addf("own=%v cross=%v/%v", own, crossA, crossB)
			if !own || crossA || crossB {
				o.modified("decision-depends-on-another-configuration/Q", fmt.Sprintf("two configurations that differ in Q: proof under the second Q verifies under it: %v; under the first Q: %v; first configuration's proof under the second Q: %v (expected true, false, false)", own, crossA, crossB))
			}
		}
	case opMSM:
		n := []int{0, 1, 2, 3, 4, 5, 33, 129, 256, 700}[rng.Intn(10)]
		pts := make([]banderwagon.Element, n)
		sc := make([]fr.Element, n)
		for i := range pts {
			pts[i] = ElemFromRef(o.base.P[rng.Intn(len(o.base.P))], big.NewInt(int64(2+i)), i%3 == 0)
			sc[i] = FrFromBig(randScalar(rng))
			if rng.Intn(5) == 0 {
				sc[i] = FrFromBig(big.NewInt(int64(rng.Intn(200))))
			}
		}
		pts, pChk := spareElems(pts)
		sc, sChk := spareFr(sc)
		snapP := append([]banderwagon.Element(nil), pts...)
		snapS := append([]fr.Element(nil), sc...)
		r1, err := ipa.MultiScalar(pts, sc)
		d.addf("err=%v", err != nil)
		d.elem(&r1)
		var r2 banderwagon.Element
		r2.SetIdentity()
		ret2, err := r2.MultiExp(pts, sc, banderwagon.MultiExpConfig{NbTasks: []int{1, 2, 7, 16, 64, 128}[rng.Intn(6)], ScalarsMont: true})
		d.addf("err=%v", err != nil)
		d.elem(&r2)
		if err == nil && ret2 != &r2 && ret2 != nil {
			// the returned pointer is the caller's accumulator
			d.elem(ret2)
			ret2.Double(ret2)
		}
		// the same sum with the scalars handed over in regular form
		{
			reg := make([]fr.Element, n)
			for i := range reg {
				reg[i] = sc[i]
				reg[i].FromMont()
			}
			reg, rChk := spareFr(reg)
			snapR := append([]fr.Element(nil), reg...)
			var r3 banderwagon.Element
			r3.SetIdentity()
			_, err = r3.MultiExp(pts, reg, banderwagon.MultiExpConfig{NbTasks: []int{0, 1, 3, 16}[rng.Intn(4)], ScalarsMont: false})
			d.addf("err=%v", err != nil)
			d.elem(&r3)
			if !frEq(reg, snapR) || !rChk() {
				o.modified("input-modified/MultiExp/regular-scalars", fmt.Sprintf("MultiExp(ScalarsMont=false) changed the caller's %d scalars (or wrote into their spare capacity)", n))
			}
		}
		for i := range pts {
			if pts[i] != snapP[i] {
				o.modified("input-modified/MultiExp/points", "MultiExp changed the caller's points")
				break
			}
		}
		// the same backing arrays again after the caller replaced an interior term in place, against fresh copies
		if n >= 3 {
			pts[n/2], sc[n/2] = pts[0], sc[n-1]
			again, err1 := ipa.MultiScalar(pts, sc)
			fresh, err2 := ipa.MultiScalar(append([]banderwagon.Element(nil), pts...), append([]fr.Element(nil), sc...))
			d.elem(&again)
			if err1 != nil || err2 != nil || !again.Equal(&fresh) {
				o.modified("result-depends-on-history/MultiScalar", fmt.Sprintf("ipa.MultiScalar on %d-element slices whose interior term was replaced in place since the previous call differs from the same call on fresh copies", n))
			}
			copy(snapP, pts)
			copy(snapS, sc)
		}
		if !frEq(sc, snapS) || !pChk() || !sChk() {
			o.modified("input-modified/MultiExp/scalars", "MultiExp changed the caller's scalars (or wrote into the spare capacity of points/scalars)")
		}
	case opElement:
		p := ElemFromRef(o.base.P[rng.Intn(len(o.base.P))], randNonZeroP(rng), rng.Intn(2) == 0)
		q := ElemFromRef(o.base.P[rng.Intn(len(o.base.P))], nil, false)
		keepQ := q
		for i := 0; i < 12; i++ {
			switch rng.Intn(6) {
			case 0:
				p.Add(&p, &q)
			case 1:
				p.Double(&p)
			case 2:
				s := FrFromBig(randScalar(rng))
				p.ScalarMul(&p, &s)
			case 3:
				p.Sub(&q, &p)
			case 4:
				by := p.Bytes()
				var t banderwagon.Element
				if err := t.SetBytes(by[:]); err == nil {
					p = t
				} else {
					d.addf("decode-error")
				}
			case 5:
				p.Neg(&p)
			}
		}
		d.elem(&p)
		var s fr.Element
		p.MapToScalarField(&s)
		sb := s.Bytes()
		d.add(sb[:])
		d.addf("eq=%v gen=%v", p.Equal(&q), p.Equal(&banderwagon.Generator))
		ub := p.BytesUncompressedTrusted()
		d.add(ub[:])
		if q != keepQ {
			o.modified("input-modified/element-ops", "a group operation changed a non-receiver operand")
		}
	case opBatch:
		n := []int{0, 1, 2, 17, 40, 257}[rng.Intn(6)]
		if k%3 == 1 && n > 0 {
			// an earlier call with an un-normalisable element somewhere in the list
			pl := make([]*banderwagon.Element, n)
			ps := make([]banderwagon.Element, n)
			for i := range pl {
				ps[i] = ElemFromRef(o.base.P[rng.Intn(len(o.base.P))], nil, false)
				pl[i] = &ps[i]
			}
			var bad banderwagon.Element
			pl[rng.Intn(n)] = &bad
			monTry(func() { banderwagon.ElementsToBytes(pl...) })
			monTry(func() { banderwagon.BatchToBytesUncompressed(pl...) })
			monTry(func() { banderwagon.BatchNormalize(pl) })
		}
		store := make([]banderwagon.Element, n)
		list := make([]*banderwagon.Element, n)
		for i := range store {
			store[i] = ElemFromRef(o.base.P[rng.Intn(len(o.base.P))], randNonZeroP(rng), rng.Intn(2) == 0)
			list[i] = &store[i]
			if i > 0 && rng.Intn(4) == 0 {
				list[i] = list[rng.Intn(i)]
			}
		}
		snap := append([]banderwagon.Element(nil), store...)
		eb := banderwagon.ElementsToBytes(list...)
		for i, b := range eb {
			d.add(b[:])
			eb[i] = [32]byte{0xEE}
		}
		for _, b := range banderwagon.ElementsToBytes(list...) {
			d.add(b[:])
		}
		for _, b := range banderwagon.BatchToBytesUncompressed(list...) {
			d.add(b[:])
		}
		res := make([]*fr.Element, n)
		rs := make([]fr.Element, n)
		for i := range res {
			res[i] = &rs[i]
		}
		err := banderwagon.BatchMapToScalarField(res, list)
		d.addf("err=%v", err != nil)
		for i := range rs {
			b := rs[i].Bytes()
			d.add(b[:])
		}
		for i := range store {
			if store[i] != snap[i] {
				o.modified("input-modified/batch-serialisers", "a batch serialiser changed an element")
				break
			}
		}
		err = banderwagon.BatchNormalize(list)
		d.addf("err=%v", err != nil)
		for i := range list {
			d.elem(list[i])
		}
	case opTranscript:
		tr := common.NewTranscript([]string{"", "t", "simple_protocol"}[rng.Intn(3)])
		for i := 0; i < 1+rng.Intn(40); i++ {
			lab := c14bytes(rng, 30)
			switch rng.Intn(5) {
			case 0:
				tr.DomainSep(lab)
			case 1:
				tr.AppendMessage(c14bytes(rng, 300), lab)
			case 2:
				s := FrFromBig(randScalar(rng))
				tr.AppendScalar(&s, lab)
			case 3:
				p := ElemFromRef(o.base.P[rng.Intn(len(o.base.P))], randNonZeroP(rng), rng.Intn(2) == 0)
				tr.AppendPoint(&p, lab)
			default:
				ch := tr.ChallengeScalar(lab)
				b := ch.Bytes()
				d.add(b[:])
			}
		}
		ch := tr.ChallengeScalar([]byte("end"))
		b := ch.Bytes()
		d.add(b[:])
	case opFrPool:
		// calls with arguments nothing is promised for (negative exponents, division by zero, ...): results unjudged, but
		// the field constants and everything computed afterwards must be what they always are
		fieldEdgeCalls(nil, rng)
		d.addf("%s", fr.Modulus().Text(16))
		for i := 0; i < 40; i++ {
			buf := make([]byte, rng.Intn(65))
			if i%10 == 9 {
				buf = make([]byte, 65+rng.Intn(136)) // longer than any buffer a decoder might keep on its stack
			}
			rng.Read(buf)
			var a, b2, c3 fr.Element
			snapB := append([]byte(nil), buf...)
			chk := func(name string) {
				// after every single call (two in-place reversals would cancel each other)
				if !bytes.Equal(buf, snapB) {
					o.modified("input-modified/fr-decoders/"+name, fmt.Sprintf("%s changed the caller's %d-byte slice", name, len(buf)))
					copy(buf, snapB)
				}
			}
			a.SetBytes(buf)
			chk("SetBytes")
			b2.SetBytesLE(buf)
			chk("SetBytesLE")
			_, err := c3.SetBytesLECanonical(buf)
			chk("SetBytesLECanonical")
			d.addf("%s %s %v", a.String(), b2.String(), err != nil)
			var e fr.Element
			e.SetString(a.String())
			d.addf("%v", e.Equal(&a))
			var bi big.Int
			a.ToBigIntRegular(&bi)
			var f fr.Element
			// the integer is the caller's: negative, in range, or beyond the modulus
			arg := new(big.Int).Neg(&bi)
			switch i % 4 {
			case 1:
				arg.Set(&bi)
			case 2:
				arg.Add(&bi, new(big.Int).Mul(fr.Modulus(), big.NewInt(int64(1+rng.Intn(5)))))
			case 3:
				arg.Lsh(&bi, uint(1+rng.Intn(300)))
			}
			argSnap := new(big.Int).Set(arg)
			f.SetBigInt(arg)
			if arg.Cmp(argSnap) != 0 {
				o.modified("input-modified/fr.SetBigInt", "fr.Element.SetBigInt changed the caller's big.Int "+argSnap.Text(16))
				arg.Set(argSnap)
			}
			var f2 fr.Element
			if _, err := f2.SetInterface(arg); err != nil || arg.Cmp(argSnap) != 0 {
				o.modified("input-modified/fr.SetInterface", "fr.Element.SetInterface(*big.Int) failed or changed the caller's big.Int "+argSnap.Text(16))
				arg.Set(argSnap)
			}
			var g fp.Element
			g.SetBigInt(arg)
			if arg.Cmp(argSnap) != 0 {
				o.modified("input-modified/fp.SetBigInt", "fp.Element.SetBigInt changed the caller's big.Int "+argSnap.Text(16))
			}
			fb := f.BytesLE()
			d.add(fb[:])
			gb := g.Bytes()
			d.add(gb[:])
			d.addf("%v", f == f2)
			if i%8 == 0 {
				// batch inversion, with and without zeros among the inputs (zeros stay zero)
				vec := make([]fr.Element, 1+rng.Intn(40))
				for j := range vec {
					vec[j] = FrFromBig(randBig(rng, ref.R))
				}
				if rng.Intn(2) == 0 {
					vec[rng.Intn(len(vec))].SetZero()
				}
				snapV := append([]fr.Element(nil), vec...)
				for _, iv := range fr.BatchInvert(vec) {
					ib := iv.Bytes()
					d.add(ib[:])
				}
				if !frEq(vec, snapV) {
					o.modified("input-modified/fr.BatchInvert", "fr.BatchInvert changed its input vector")
				}
				var inv, sq fr.Element
				inv.Inverse(&a)
				d.addf("%s %d", inv.String(), a.Legendre())
				if r := sq.Sqrt(&a); r != nil {
					d.addf("%s", r.String())
				}
			}
		}
	case opCodec:
		for i := 0; i < 10; i++ {
			pt := o.base.P[rng.Intn(len(o.base.P))]
			enc := ref.Serialize(pt)
			var e banderwagon.Element
			err := e.SetBytes(enc[:])
			d.addf("err=%v", err != nil)
			d.elem(&e)
			u := e.BytesUncompressedTrusted()
			var e2, e3 banderwagon.Element
			d.addf("err=%v err=%v", e2.SetBytesUncompressed(u[:], false) != nil, e3.SetBytesUncompressed(u[:], true) != nil)
			d.elem(&e3)
			junk := make([]byte, 32)
			rng.Read(junk)
			d.addf("junk err=%v", e2.SetBytes(junk) != nil)
			// small x values (about half of the curve's x are outside the subgroup, a quarter are not on the curve at all):
			// the checked decoder, then the trusted decoder on the same bytes, then the checked decoder again
			small := make([]byte, 32)
			small[31] = byte(1 + rng.Intn(60))
			var e4 banderwagon.Element
			first := e4.SetBytes(small) != nil
			monTry(func() { e4.SetBytesUnsafe(small) })
			again := e4.SetBytes(small) != nil
			d.addf("small err=%v err=%v", first, again)
			if first != again {
				o.modified("decision-depends-on-history/SetBytes", fmt.Sprintf("SetBytes(x=%d) gives a different verdict after SetBytesUnsafe was called on the same bytes (rejected before: %v, after: %v)", small[31], first, again))
			}
			p, err := common.ReadPoint(bytes.NewReader(enc[:]))
			d.addf("err=%v", err != nil)
			if p != nil {
				d.elem(p)
				p.SetIdentity() // scribble on the returned object, then read the same bytes again
				if p2, err2 := common.ReadPoint(bytes.NewReader(enc[:])); err2 == nil && p2 != nil {
					d.elem(p2)
				}
			}
			sc := ref.LE32(randBig(rng, ref.R))
			s, err := common.ReadScalar(bytes.NewReader(sc[:]))
			d.addf("err=%v", err != nil)
			if s != nil {
				b := s.Bytes()
				d.add(b[:])
			}
		}
	case opSqrt:
		for i := 0; i < 30; i++ {
			v := FpFromBig(randBig(rng, ref.P))
			if r := fp.SqrtPrecomp(&v); r != nil {
				b := r.Bytes()
				d.add(b[:])
			} else {
				d.addf("nil")
			}
		}
	case opExecute:
		n := rng.Intn(500)
		out := make([]int32, n)
		parallel.Execute(n, func(s, e int) {
			for i := s; i < e; i++ {
				out[i] += int32(i + 1)
			}
		}, 1+rng.Intn(20))
		sum := int64(0)
		for i, v := range out {
			if v != int32(i+1) {
				sum = -1
				break
			}
			sum += int64(v)
		}
		d.addf("sum=%d", sum)
	case opCRS:
		np := uint64(1 + rng.Intn(12))
		if k%4 == 3 {
			np = uint64([]int{257, 300, 13, 64}[rng.Intn(4)]) // also more points than a configuration uses
		}
		pts := ipa.GenerateRandomPoints(np)
		want := ref.CRS(int(np))
		for i := range pts {
			if g, ok := ElemToRef(&pts[i]); !ok || !ref.ClassEqual(g, ref.FromAffine(want[i])) {
				o.modified("wrong-result/GenerateRandomPoints", fmt.Sprintf("GenerateRandomPoints(%d)[%d] is not the %d-th point of the hash-and-increment sequence (the result depends on earlier calls)", np, i, i))
				break
			}
		}
		for i := range pts {
			d.elem(&pts[i])
			pts[i].SetIdentity() // the returned slice is the caller's: scribble on it ...
		}
		for _, p2 := range ipa.GenerateRandomPoints(np) { // ... and ask again
			d.elem(&p2)
		}
		m := fr.Modulus()
		d.addf("%s", m.Text(16))
		m.SetInt64(7)
		d.addf("%s", fr.Modulus().Text(16))
	case opVerifyMalformed:
		// error paths: wrong-shape proofs and statements must fail cleanly and leave nothing behind
		n := []int{1, 2, 4, 9}[rng.Intn(4)]
		label, Cs, fs, zs, ys := o.buildStatement(rng, n)
		pr, err := multiproof.CreateMultiProof(common.NewTranscript(label), env.Conf, Cs, fs, zs)
		if err != nil {
			d.addf("error:%v", err)
			break
		}
		bad := multiproof.MultiProof{D: pr.D}
		bad.IPA.A_scalar = pr.IPA.A_scalar
		bad.IPA.L = append([]banderwagon.Element(nil), pr.IPA.L...)
		bad.IPA.R = append([]banderwagon.Element(nil), pr.IPA.R...)
		switch rng.Intn(5) {
		case 0:
			bad.IPA.L = bad.IPA.L[:7]
			bad.IPA.R = bad.IPA.R[:7]
		case 1:
			bad.IPA.L = append(bad.IPA.L, bad.IPA.L[0])
			bad.IPA.R = append(bad.IPA.R, bad.IPA.R[0])
		case 2:
			bad.IPA.L = nil
			bad.IPA.R = nil
		case 3:
			bad.IPA.R = bad.IPA.R[:5]
		default:
			ys = ys[:len(ys)-1]
		}
		var ok bool
		p, _ := monTry(func() { ok, err = multiproof.CheckMultiProof(common.NewTranscript(label), env.Conf, &bad, Cs, ys, zs) })
		d.addf("ok=%v err=%v panic=%v", ok, err != nil, p != nil)
		// the prover's error path: an un-normalisable commitment after repeated pointers - an error, and nothing written
		{
			_, Cs2, fs2, zs2, _ := o.buildStatement(rng, 4)
			var badC banderwagon.Element
			Cs2 = []*banderwagon.Element{Cs2[0], Cs2[0], Cs2[1], Cs2[0], &badC}
			fs2 = append(fs2[:4:4], fs2[0])
			zs2 = append(zs2[:4:4], zs2[0])
			snapC := make([]banderwagon.Element, len(Cs2))
			for i := range Cs2 {
				snapC[i] = *Cs2[i]
			}
			var perr error
			pp, _ := monTry(func() { _, perr = multiproof.CreateMultiProof(common.NewTranscript("bad"), env.Conf, Cs2, fs2, zs2) })
			d.addf("prover err=%v panic=%v", perr != nil, pp != nil)
			if perr == nil && pp == nil {
				o.modified("no-error/CreateMultiProof/un-normalisable-commitment", "CreateMultiProof returned no error although one commitment cannot be normalised")
			}
			for i := range Cs2 {
				if *Cs2[i] != snapC[i] {
					o.modified("input-modified/CreateMultiProof/error-path", fmt.Sprintf("CreateMultiProof failed (or should have) but modified commitment %d", i))
					break
				}
			}
		}
		// a failing transcript/codec call in between
		var e banderwagon.Element
		d.addf("%v %v", e.SetBytes([]byte{1, 2, 3}) != nil, e.SetBytesUncompressed(make([]byte, 63), false) != nil)
		_, err = ipa.MultiScalar(make([]banderwagon.Element, 3), make([]fr.Element, 2))
		d.addf("%v", err != nil)
	case opProofIO:
		// serialisation with re-used proof objects: reading into an object must not disturb a copy made earlier
		mk := func() []byte {
			var out []byte
			for i := 0; i < 17; i++ {
				e := ref.Serialize(o.base.P[rng.Intn(len(o.base.P))])
				out = append(out, e[:]...)
			}
			sv := randBig(rng, ref.R)
			if rng.Intn(2) == 0 {
				sv = randScalar(rng)
			}
			sc := ref.LE32(sv)
			return append(out, sc[:]...)
		}
		b1, b2 := mk(), mk()
		in1, chk1 := spareBytes(b1)
		var scratch multiproof.MultiProof
		d.addf("err=%v", scratch.Read(bytes.NewReader(in1)) != nil)
		kept := scratch // value copy made by the caller
		var w0 bytes.Buffer
		kept.Write(&w0)
		d.addf("err=%v", scratch.Read(bytes.NewReader(b2)) != nil)
		var w1, w2 bytes.Buffer
		kept.Write(&w1)
		scratch.Write(&w2)
		d.add(w1.Bytes())
		d.add(w2.Bytes())
		if !bytes.Equal(w2.Bytes(), b2) {
			o.modified("wrong-result/MultiProof.Read/used-receiver", "a proof read into an object that already held another proof does not serialise to the bytes it was read from")
		}
		if !bytes.Equal(w0.Bytes(), w1.Bytes()) || !bytes.Equal(w1.Bytes(), b1) {
			o.modified("input-modified/MultiProof.Read/earlier-copy", "reading a second proof into a proof object changed a copy of the object made before the call")
		}
		if !chk1() || !bytes.Equal(in1, b1) {
			o.modified("input-modified/MultiProof.Read/bytes", "MultiProof.Read changed the caller's byte slice")
		}
		// a failing Read into a used object, then a good one
		bad := append([]byte(nil), b1[:300]...)
		d.addf("err=%v", scratch.Read(bytes.NewReader(bad)) != nil)
		var w3 bytes.Buffer
		kept.Write(&w3)
		if !bytes.Equal(w3.Bytes(), b1) {
			o.modified("input-modified/MultiProof.Read/earlier-copy", "a failing Read changed a copy of the proof object made before the call")
		}
		var ip ipa.IPAProof
		d.addf("err=%v", ip.Read(bytes.NewReader(b1[32:])) != nil)
		ipKept := ip
		d.addf("err=%v", ip.Read(bytes.NewReader(b2[32:])) != nil)
		var w4 bytes.Buffer
		ipKept.Write(&w4)
		if !bytes.Equal(w4.Bytes(), b1[32:]) {
			o.modified("input-modified/IPAProof.Read/earlier-copy", "reading a second proof into an IPAProof changed a copy made before the call")
		}
		d.add(w4.Bytes())
	case opCurveAPI:
		// the lower-level curve functions, on edge and random inputs, with results scribbled on
		for _, xv := range []*big.Int{new(big.Int), big.NewInt(1), new(big.Int).Sub(ref.P, bigOne), o.base.P[rng.Intn(len(o.base.P))].X, randBig(rng, ref.P)} {
			for _, largest := range []bool{true, false} {
				xe := FpFromBig(xv)
				p := bandersnatch.GetPointFromX(&xe, largest)
				if p == nil {
					d.addf("nil")
					continue
				}
				xb, yb := p.X.Bytes(), p.Y.Bytes()
				d.add(xb[:])
				d.add(yb[:])
				p.X.SetUint64(5)
				p.Y.SetUint64(6)
			}
		}
		var z fp.Element
		if r0 := fp.SqrtPrecomp(&z); r0 != nil {
			b := r0.Bytes()
			d.add(b[:])
			r0.SetUint64(9)
		}
		pp := bandersnatch.PointProj{X: FpFromBig(o.base.P[0].X), Y: FpFromBig(o.base.P[0].Y), Z: FpFromBig(bigOne)}
		ext := bandersnatch.PointExtendedFromProj(&pp)
		tb := ext.T.Bytes()
		d.add(tb[:])
		var wbuf bytes.Buffer
		aff := bandersnatch.PointAffine{X: pp.X, Y: pp.Y}
		nw, err := bandersnatch.WriteUncompressedPoint(&wbuf, &aff)
		d.addf("%d %v", nw, err != nil)
		back, err := bandersnatch.ReadUncompressedPoint(bytes.NewReader(wbuf.Bytes()))
		d.addf("%v %v", err != nil, back.X == aff.X && back.Y == aff.Y)
		id := bandersnatch.Identity
		idb := id.Y.Bytes()
		d.add(idb[:])
		// one basis point's window tables, built here (in C12 several goroutines build tables at the same time - the unit
		// NewIPASettings builds 256 of) and used for one fixed-base multiplication, compared with the variable-base one
		{
			tp := ElemFromRef(o.base.P[(k+3)%len(o.base.P)], nil, false)
			sc := FrFromBig(randScalar(rng))
			ppt, err := banderwagon.NewPrecompPoint(tp, 8)
			d.addf("table err=%v", err != nil)
			if err == nil {
				acc := bandersnatch.IdentityExt
				ppt.ScalarMul(sc, &acc)
				viaTable := banderwagon.VerifFromCoords(acc.X, acc.Y, acc.Z)
				var direct banderwagon.Element
				direct.ScalarMul(&tp, &sc)
				d.elem(&viaTable)
				d.addf("%v", viaTable.Equal(&direct))
			}
		}
	case opSharedInputs:
		// APIs that only READ their arguments are called on objects shared by all goroutines
		tr := common.NewTranscript("shared")
		for i := range o.sharedScalars {
			tr.AppendScalar(&o.sharedScalars[(i+k)%len(o.sharedScalars)], []byte("s"))
			tr.AppendPoint(&o.sharedPoints[(i+k)%len(o.sharedPoints)], []byte("p"))
		}
		ch := tr.ChallengeScalar([]byte("c"))
		cb := ch.Bytes()
		d.add(cb[:])
		for i := range o.sharedPoints {
			p := &o.sharedPoints[i]
			d.elem(p)
			var m fr.Element
			p.MapToScalarField(&m)
			mb := m.Bytes()
			d.add(mb[:])
			d.addf("%v", p.Equal(&o.sharedPoints[(i+1)%len(o.sharedPoints)]))
			sb := o.sharedScalars[i].BytesLE()
			d.add(sb[:])
			d.addf("%s %d", o.sharedScalars[i].String(), o.sharedScalars[i].Cmp(&o.sharedScalars[(i+1)%len(o.sharedScalars)]))
		}
		o.decodeShared(&d)
		r1, err := ipa.MultiScalar(o.sharedPoints, o.sharedScalars)
		d.addf("err=%v", err != nil)
		d.elem(&r1)
		ptrs := make([]*banderwagon.Element, len(o.sharedPoints))
		for i := range ptrs {
			ptrs[i] = &o.sharedPoints[i]
		}
		for _, b := range banderwagon.ElementsToBytes(ptrs...) {
			d.add(b[:])
		}
		rs := make([]fr.Element, len(ptrs))
		res := make([]*fr.Element, len(ptrs))
		for i := range res {
			res[i] = &rs[i]
		}
		banderwagon.BatchMapToScalarField(res, ptrs)
		for i := range rs {
			b := rs[i].Bytes()
			d.add(b[:])
		}
		if env != nil {
			c := env.Conf.Commit(o.sharedPoly)
			d.elem(&c)
			q := env.Conf.PrecomputedWeights.DivideOnDomain(uint8(k%256), o.sharedPoly)
			qb := q[(k*7)%256].Bytes()
			d.add(qb[:])
		}
	case opNewSettings:
		conf, err := ipa.NewIPASettings()
		d.addf("err=%v", err != nil)
		if conf != nil {
			d.addf("%s", cheapFingerprint(conf))
			if w, wins := conf.PrecompMSM.VerifTable(7); w == 8 && len(wins) == 32 {
				e := wins[31][127]
				d.addf("%v %v", e.X, e.T)
			}
			v := make([]fr.Element, 256)
			v[3].SetUint64(5)
			v[200] = FrFromBig(randScalar(rng))
			c := conf.Commit(v)
			d.elem(&c)
		}
	}
	return d.sum()
}

func monTry(f func()) (p interface{}, stack string) {
	defer func() {
		if r := recover(); r != nil {
			p = r
		}
	}()
	f()
	return nil, ""
}
