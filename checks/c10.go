package checks

import (
	"bufio"
	"bytes"
	"errors"
	"fmt"
	"io"
	"math/big"
	"math/rand"
	"runtime/debug"
	"strings"
	"testing/iotest"

	multiproof "github.com/crate-crypto/go-ipa"
	"github.com/crate-crypto/go-ipa/bandersnatch/fr"
	"github.com/crate-crypto/go-ipa/banderwagon"
	"github.com/crate-crypto/go-ipa/common"
	"github.com/crate-crypto/go-ipa/ipa"

	"verif/mon"
	"verif/ref"
)

func init() {
	register(&Check{
		ID:    "C10",
		Title: "Proof (de)serialisation is total, canonical and robust to I/O faults",
		Rule: "byte strings: 17 valid point encodings + canonical scalar (from reference multiples, plus honest library proofs), each of the 18 fields replaced by boundary values (scalar 0/r-1/r/r+1/p-1/2^256-1; point x+p alias, off-curve, non-subgroup, other valid point, 0, 2^256-1), truncations and extensions at every interesting length 0..1152, random bytes; " +
			"each through a family of readers (bytes.Reader, one byte at a time, half reads, fixed chunk k, data-together-with-EOF, (0,nil) stutter, error at offset k, timeout) for MultiProof.Read and IPAProof.Read; Write against writers failing at each of the 18 write calls (error, short write with error); " +
			"a class is (function, string class, reader/writer kind, reference verdict); non-trivial = non-empty string",
		Technique:        "reference-model monitor (independent field-wise decision of acceptance) + fault-injecting io.Reader/io.Writer owned by the harness",
		MinEvals:         map[string]int64{"quick": 20000, "thorough": 400000},
		MinClasses:       map[string]int64{"quick": 150, "thorough": 200},
		RequiredCounters: []string{"accept_expected_and_observed", "reject_expected_and_observed", "write_faults_injected", "reader_faults_injected", "trailing_data_rejected", "nested_calls_from_io_callbacks"},
		Assumptions:      []string{"a reader error other than io.EOF at or after the last field is a failed read, so rejection is expected", "honest proofs come from the library's own prover (their validity is C01's subject)"},
		Plan: func(tier string) []Child {
			return plus386div(shardsVar(pick(tier, 12, 16), Child{Flavour: "plain", NCPU: 1}), 1, pick(tier, 1, 8))
		},
		Run: runC10,
	})
}

// ---- readers ----

type chunkReader struct {
	data  []byte
	pos   int
	chunk int
	// failAt >= 0: return failErr once pos reaches failAt (bytes before it are delivered)
	failAt  int
	failErr error
	stutter bool // return (0, nil) before every real read
	flip    bool
}

func (r *chunkReader) Read(p []byte) (int, error) {
	if r.stutter {
		r.flip = !r.flip
		if r.flip {
			return 0, nil
		}
	}
	if r.failAt >= 0 && r.pos >= r.failAt {
		return 0, r.failErr
	}
	if r.pos >= len(r.data) {
		return 0, io.EOF
	}
	n := r.chunk
	if n > len(p) {
		n = len(p)
	}
	if n > len(r.data)-r.pos {
		n = len(r.data) - r.pos
	}
	if r.failAt >= 0 && r.pos+n > r.failAt {
		n = r.failAt - r.pos
	}
	copy(p, r.data[r.pos:r.pos+n])
	r.pos += n
	return n, nil
}

var errInjected = errors.New("injected I/O fault")

type readerKind struct {
	name   string
	mk     func(b []byte, rng *rand.Rand) (io.Reader, func() int)
	faulty func(b []byte) bool // true if the reader fails before cleanly delivering everything + EOF
}

func c10readers() []readerKind {
	clean := func([]byte) bool { return false }
	return []readerKind{
		{"bytes.Reader", func(b []byte, _ *rand.Rand) (io.Reader, func() int) {
			r := bytes.NewReader(b)
			return r, func() int { return len(b) - r.Len() }
		}, clean},
		{"bytes.Buffer-over-the-caller's-slice", func(b []byte, _ *rand.Rand) (io.Reader, func() int) {
			// bytes.NewBuffer(b) reads straight out of b: a decoder that takes a zero-copy view (Next) and works in place
			// would scribble on the caller's data
			r := bytes.NewBuffer(b)
			return r, func() int { return len(b) - r.Len() }
		}, clean},
		{"bytes.Buffer-over-read-only-memory", func(b []byte, _ *rand.Rand) (io.Reader, func() int) {
			// the stream's bytes are on a read-only page: a decoder that works in place on a zero-copy view faults (the
			// fault is turned into a panic, which the caller of Read reports)
			rb := roBytesBudget(b)
			r := bytes.NewBuffer(rb)
			return r, func() int { return len(rb) - r.Len() }
		}, clean},
		{"one-byte", func(b []byte, _ *rand.Rand) (io.Reader, func() int) {
			r := bytes.NewReader(b)
			return iotest.OneByteReader(r), func() int { return len(b) - r.Len() }
		}, clean},
		{"half", func(b []byte, _ *rand.Rand) (io.Reader, func() int) {
			r := bytes.NewReader(b)
			return iotest.HalfReader(r), func() int { return len(b) - r.Len() }
		}, clean},
		{"data+EOF", func(b []byte, _ *rand.Rand) (io.Reader, func() int) {
			r := bytes.NewReader(b)
			return iotest.DataErrReader(r), nil
		}, clean},
		{"bytes.Reader-after-header", func(b []byte, rng *rand.Rand) (io.Reader, func() int) {
			// the proof is the tail of a longer message whose header has already been consumed from the same reader
			h := 1 + rng.Intn(9)
			msg := append(make([]byte, h), b...)
			r := bytes.NewReader(msg)
			io.CopyN(io.Discard, r, int64(h))
			return r, func() int { return len(b) - r.Len() }
		}, clean},
		{"strings.Reader-after-header", func(b []byte, rng *rand.Rand) (io.Reader, func() int) {
			h := 1 + rng.Intn(9)
			r := strings.NewReader(string(append(make([]byte, h), b...)))
			io.CopyN(io.Discard, r, int64(h))
			return r, func() int { return len(b) - r.Len() }
		}, clean},
		{"io.SectionReader", func(b []byte, rng *rand.Rand) (io.Reader, func() int) {
			h := 1 + rng.Intn(9)
			msg := append(append(make([]byte, h), b...), 0xAA, 0xBB)
			return io.NewSectionReader(bytes.NewReader(msg), int64(h), int64(len(b))), nil
		}, clean},
		{"bufio.Reader", func(b []byte, rng *rand.Rand) (io.Reader, func() int) {
			return bufio.NewReaderSize(bytes.NewReader(b), 16+rng.Intn(700)), nil
		}, clean},
		{"chunk-k", func(b []byte, rng *rand.Rand) (io.Reader, func() int) {
			r := &chunkReader{data: b, chunk: 1 + rng.Intn(70), failAt: -1}
			return r, func() int { return r.pos }
		}, clean},
		{"nested-decoder", func(b []byte, rng *rand.Rand) (io.Reader, func() int) {
			// the reader is itself a user of the library: between two chunks of this stream it reads and writes another,
			// valid proof (two calls overlap on one goroutine)
			r := &nestReader{data: b, chunk: 1 + rng.Intn(600), at: 1 + rng.Intn(3), fn: func() { c10nested(rng) }}
			return r, func() int { return r.pos }
		}, clean},
		{"stutter(0,nil)", func(b []byte, rng *rand.Rand) (io.Reader, func() int) {
			r := &chunkReader{data: b, chunk: 1 + rng.Intn(40), failAt: -1, stutter: true}
			return r, func() int { return r.pos }
		}, clean},
	}
}

// ---- reference decision ----

type c10oracle struct {
	cache map[string]bool
}

func (o *c10oracle) pointOK(b []byte) bool {
	k := string(b)
	if v, ok := o.cache[k]; ok {
		return v
	}
	_, err := ref.Deserialize(b)
	if len(o.cache) > 20000 {
		o.cache = map[string]bool{}
	}
	o.cache[k] = err == nil
	return err == nil
}

// fieldsOK decides 16 points + scalar (IPA part, 544 bytes).
func (o *c10oracle) ipaOK(b []byte) bool {
	if len(b) < 544 {
		return false
	}
	for i := 0; i < 16; i++ {
		if !o.pointOK(b[32*i : 32*i+32]) {
			return false
		}
	}
	return ref.FromLE(b[512:544]).Cmp(ref.R) < 0
}

func (o *c10oracle) multiOK(b []byte) bool {
	return len(b) == 576 && o.pointOK(b[:32]) && o.ipaOK(b[32:])
}

// ---- string generation ----

type c10str struct {
	b   []byte
	cls string
}

func c10valid(rng *rand.Rand, pool *Pool) []byte {
	out := make([]byte, 0, 576)
	for i := 0; i < 17; i++ {
		e := ref.Serialize(pool.P[rng.Intn(len(pool.P))])
		out = append(out, e[:]...)
	}
	var s *big.Int
	switch rng.Intn(7) {
	case 0:
		s = new(big.Int).Sub(ref.R, bigOne)
	case 1:
		s = new(big.Int)
	case 2, 3:
		s = randScalar(rng) // small, limb-structured, Montgomery-small, edge values
	default:
		s = randBig(rng, ref.R)
	}
	le := ref.LE32(s)
	return append(out, le[:]...)
}

func c10mutations(rng *rand.Rand, base []byte, pool *Pool) []c10str {
	var out []c10str
	put := func(field int, v []byte, cls string) {
		b := append([]byte(nil), base...)
		copy(b[32*field:], v)
		fc := "D"
		switch {
		case field == 17:
			fc = "scalar"
		case field >= 9:
			fc = "R"
		case field >= 1:
			fc = "L"
		}
		out = append(out, c10str{b, fc + ":" + cls})
	}
	r := ref.R
	le := func(v *big.Int) []byte { b := ref.LE32(v); return b[:] }
	put(17, le(new(big.Int).Sub(r, bigOne)), "r-1")
	put(17, le(r), "r")
	put(17, le(new(big.Int).Add(r, bigOne)), "r+1")
	put(17, le(new(big.Int).Sub(ref.P, bigOne)), "p-1")
	put(17, le(new(big.Int).Sub(two256, bigOne)), "2^256-1")
	put(17, le(new(big.Int)), "0")
	put(17, be32(new(big.Int).Sub(r, bigOne)), "r-1-bigendian")
	put(17, le(new(big.Int).Add(r, randBig(rng, r))), "r+random")
	// valid scalars of every width class (one, two, three words; small in one word; limb-structured): accepted, and
	// Write must reproduce them
	es := edgeScalars()
	for k := 0; k < 6; k++ {
		put(17, le(es[rng.Intn(len(es))]), "valid-edge-value")
	}
	put(17, le(big.NewInt(int64(1+rng.Intn(1<<30)))), "valid-below-2^32")
	put(17, le(new(big.Int).Add(new(big.Int).Lsh(bigOne, uint(64*(1+rng.Intn(3)))), big.NewInt(int64(rng.Intn(1<<30))))), "valid-2^64k+small")
	ns := limbNeighbours(r, rng)
	for k := 0; k < 4; k++ {
		put(17, le(ns[rng.Intn(len(ns))]), "limb-neighbour-of-r")
	}
	for k := 0; k < 3; k++ {
		f := rng.Intn(17)
		if k == 0 {
			f = 0
		}
		enc := base[32*f : 32*f+32]
		x := ref.FromBE(enc)
		put(f, be32(new(big.Int).Add(x, ref.P)), "alias-x+p")
		put(f, be32(c06offCurveX(rng)), "off-curve")
		put(f, be32(c06nonSubgroupX(rng)), "non-subgroup")
		o := ref.Serialize(pool.P[rng.Intn(len(pool.P))])
		put(f, o[:], "other-valid")
		put(f, make([]byte, 32), "zero")
		put(f, bytes.Repeat([]byte{0xff}, 32), "2^256-1")
		put(f, be32(ref.NegP(x)), "negated-x")
		fl := append([]byte(nil), enc...)
		fl[rng.Intn(32)] ^= byte(1 << uint(rng.Intn(8)))
		put(f, fl, "bitflip")
	}
	// the same kind of invalid field in several places at once (2, 3, 4 and all 16 L/R fields; the same bytes or different
	// ones): every field is checked on its own, whatever the others hold
	for _, k := range []int{2, 3, 4, 16} {
		for _, kind := range []string{"non-subgroup", "off-curve", "alias-x+p"} {
			b := append([]byte(nil), base...)
			same := rng.Intn(2) == 0
			var v []byte
			for _, fi := range rng.Perm(16)[:k] {
				f := 1 + fi
				if v == nil || !same {
					switch kind {
					case "non-subgroup":
						v = be32(c06nonSubgroupX(rng))
					case "off-curve":
						v = be32(c06offCurveX(rng))
					default:
						v = be32(new(big.Int).Add(ref.FromBE(base[32*f:32*f+32]), ref.P))
					}
				}
				copy(b[32*f:], v)
			}
			out = append(out, c10str{b, fmt.Sprintf("%dxLR:%s", k, kind)})
		}
	}
	// lengths
	for _, L := range []int{0, 1, 31, 32, 33, 543, 544, 545, 575, 577, 578, 576 + 32, 1152, rng.Intn(1153)} {
		b := make([]byte, L)
		n := copy(b, base)
		if L > n {
			if rng.Intn(2) == 0 {
				copy(b[n:], base) // a second valid prefix
			} else {
				rng.Read(b[n:])
			}
		}
		cls := fmt.Sprintf("len%d", L)
		if L != 0 && L != 1 && (L < 31 || L > 33) && (L < 543 || L > 545) && (L < 575 || L > 578) && L != 608 && L != 1152 {
			cls = "len-random"
		}
		out = append(out, c10str{b, cls})
	}
	rb := make([]byte, 576)
	rng.Read(rb)
	out = append(out, c10str{rb, "random576"})
	return out
}

// c10nested reads another valid proof, writes it back and compares; used from inside reader / writer callbacks.
var (
	c10ctx   *mon.Ctx
	c10other []byte
	c10kept  = Retainer{Cap: 40}
)

func c10nested(rng *rand.Rand) {
	c := c10ctx
	if c == nil || c10other == nil {
		return
	}
	var o multiproof.MultiProof
	if err := o.Read(&nestReader{data: c10other, chunk: 1 + rng.Intn(600), at: -1}); err != nil {
		c.Fail("rejected-valid/MultiProof.Read/nested", "MultiProof.Read rejects a valid proof when called from inside another stream's reader/writer: "+err.Error(), nil)
		return
	}
	w := &nestWriter{at: -1}
	if err := o.Write(w); err != nil || !bytes.Equal(w.buf, c10other) {
		c.Fail("roundtrip-differs/MultiProof/nested", fmt.Sprintf("a proof read and written from inside another stream's reader/writer does not reproduce its bytes (err=%v)", err), nil)
	}
	var ip ipa.IPAProof
	if err := ip.Read(bytes.NewReader(c10other[32:])); err != nil {
		c.Fail("rejected-valid/IPAProof.Read/nested", "IPAProof.Read rejects a valid proof when called from inside another stream's reader/writer: "+err.Error(), nil)
	}
	c.Count("nested_calls_from_io_callbacks", 1)
}

func runC10(c *mon.Ctx) {
	defer debug.SetPanicOnFault(debug.SetPanicOnFault(true)) // writes to read-only inputs become panics
	pool := NewPool(c.Rand("pool"), 40)
	c10ctx = c
	c10other = c10valid(c.Rand("other"), pool)
	or := &c10oracle{cache: map[string]bool{}}
	readers := c10readers()
	nb := c.Pick(96, 8000)
	for b := 0; b < nb; b++ {
		if !c.Mine(b) {
			continue
		}
		id := fmt.Sprintf("batch/%d", b)
		b := b
		c.Case(id, func() {
			rng := c.Rand(id)
			var base []byte
			src := "synthetic"
			if b%12 == 0 {
				base = c10honest(c, rng)
				src = "honest"
			}
			if base == nil {
				base = c10valid(rng, pool)
				src = "synthetic"
			}
			strs := append([]c10str{{base, "valid-" + src}}, c10mutations(rng, base, pool)...)
			for _, s := range strs {
				for ri, rk := range readers {
					if ri > 0 && s.cls != "valid-"+src && rng.Intn(3) != 0 && s.cls != "len577" && s.cls != "len575" {
						continue
					}
					c10readMulti(c, or, s, rk, rng)
					c10readIPA(c, or, s, rk, rng)
				}
				// injected reader faults
				for k := 0; k < 2; k++ {
					at := rng.Intn(len(s.b) + 2)
					if k == 1 {
						at = []int{0, 32, 543, 544, 575, 576}[rng.Intn(6)]
					}
					c10readFault(c, or, s, at, rng)
				}
			}
			c10write(c, base, rng)
			if b == 0 {
				c.Sample(map[string]interface{}{"valid_proof_hex_prefix": hx(base[:64]), "mutations": len(strs) - 1, "readers": len(readers)})
			}
		})
	}
	c.Case("retained-results", func() { c10kept.Flush(c) })
}

// c10honest creates a real proof with the library's prover.
func c10honest(c *mon.Ctx, rng *rand.Rand) []byte {
	env := GetEnv()
	n := 1 + rng.Intn(3)
	fs := make([][]fr.Element, n)
	Cs := make([]*banderwagon.Element, n)
	zs := make([]uint8, n)
	for i := range fs {
		fs[i] = make([]fr.Element, 256)
		for j := 0; j < 256; j += 1 + rng.Intn(40) {
			fs[i][j] = FrFromBig(randScalar(rng))
		}
		cm := env.Conf.Commit(fs[i])
		Cs[i] = &cm
		zs[i] = uint8(rng.Intn(256))
	}
	pr, err := multiproof.CreateMultiProof(common.NewTranscript("c10"), env.Conf, Cs, fs, zs)
	if err != nil {
		return nil
	}
	// the proof straight from the prover (its points are projective, not what Read produces): writing it is a read-only
	// use of the proof object, and writing it twice gives the same bytes
	snapD, snapL, snapR, snapA := pr.D, append([]banderwagon.Element(nil), pr.IPA.L...), append([]banderwagon.Element(nil), pr.IPA.R...), pr.IPA.A_scalar
	var buf bytes.Buffer
	if err := pr.Write(&buf); err != nil || buf.Len() != 576 {
		c.Fail("write-honest", fmt.Sprintf("Write of an honest proof: err=%v len=%d", err, buf.Len()), nil)
		return nil
	}
	changed := pr.D != snapD || pr.IPA.A_scalar != snapA || len(pr.IPA.L) != len(snapL) || len(pr.IPA.R) != len(snapR)
	for i := 0; !changed && i < len(snapL); i++ {
		changed = pr.IPA.L[i] != snapL[i] || pr.IPA.R[i] != snapR[i]
	}
	if changed {
		c.Fail("proof-modified-by-Write", "MultiProof.Write changed the proof object it serialised (a prover-made proof with projective points)", nil)
	}
	var buf2 bytes.Buffer
	if err := pr.Write(&buf2); err != nil || !bytes.Equal(buf.Bytes(), buf2.Bytes()) {
		c.Fail("write-twice-differs", fmt.Sprintf("writing the same prover-made proof twice gives different bytes (err=%v)", err), nil)
	}
	c.Count("prover_made_proofs_written", 1)
	return buf.Bytes()
}

var (
	c10usedMulti multiproof.MultiProof
	c10usedIPA   ipa.IPAProof
)

func c10readMulti(c *mon.Ctx, or *c10oracle, s c10str, rk readerKind, rng *rand.Rand) {
	snap := append([]byte(nil), s.b...)
	rd, _ := rk.mk(s.b, rng)
	want := or.multiOK(s.b)
	// history: sometimes the point fields of the same bytes were decoded through the TRUSTED entry point before (another
	// part of the program that takes them from its own store); the decision on the untrusted stream must not depend on it
	if rng.Intn(3) == 0 {
		for off := 0; off+32 <= len(s.b) && off < 544; off += 32 {
			var t banderwagon.Element
			fld := s.b[off : off+32]
			mon.Try(func() { t.SetBytesUnsafe(fld) })
		}
		c.Count("trusted_decode_before_untrusted", 1)
	}
	var mp multiproof.MultiProof
	freshReceiver := true
	if rng.Intn(2) == 0 {
		mp = c10usedMulti // the receiver already holds the previously accepted proof (same backing arrays)
		freshReceiver = false
	}
	var err error
	if p, st := mon.Try(func() { err = mp.Read(rd) }); p != nil {
		c.Fail("panic/MultiProof.Read", fmt.Sprintf("MultiProof.Read panicked on %s via %s: %v", s.cls, rk.name, p), map[string]string{"stack": st, "input": hx(snap)})
		return
	}
	if !bytes.Equal(s.b, snap) {
		c.Fail("input-modified/MultiProof.Read", "MultiProof.Read modified the underlying data", nil)
		copy(s.b, snap)
	}
	v := "reject"
	if want {
		v = "accept"
	}
	switch {
	case want && err != nil:
		c.Fail("rejected-valid/MultiProof.Read/"+rk.name, fmt.Sprintf("MultiProof.Read rejects a valid 576-byte proof (%s) through reader %s: %v", s.cls, rk.name, err), map[string]string{"input": hx(snap)})
	case !want && err == nil:
		sig := "accepted-invalid/MultiProof.Read/" + s.cls
		if len(s.b) > 576 {
			sig = "accepted-trailing-data/MultiProof.Read/" + rk.name
		}
		c.Fail(sig, fmt.Sprintf("MultiProof.Read accepts %d bytes of class %s through reader %s", len(s.b), s.cls, rk.name), map[string]string{"input": hx(snap)})
	case !want:
		c.Count("reject_expected_and_observed", 1)
		if len(s.b) > 576 && or.multiOK(s.b[:576]) {
			c.Count("trailing_data_rejected", 1)
		}
	default:
		c.Count("accept_expected_and_observed", 1)
		if freshReceiver && rng.Intn(2) == 0 {
			// the caller keeps this proof object (it is not used as a receiver again): many reads and writes later it must
			// still serialise to the bytes it was read from
			kept, orig := mp, append([]byte(nil), snap...)
			c10kept.Keep(c, "MultiProof.Read", func() string {
				var w bytes.Buffer
				if err := kept.Write(&w); err != nil || !bytes.Equal(w.Bytes(), orig) {
					return fmt.Sprintf("a proof object read earlier no longer serialises to the bytes it was read from (err=%v)", err)
				}
				return ""
			})
		} else {
			c10usedMulti = mp
		}
		// Write reproduces the input; Read(Write(p)) == p
		var w bytes.Buffer
		if err := mp.Write(&w); err != nil || !bytes.Equal(w.Bytes(), snap) {
			c.Fail("write-differs-from-input", fmt.Sprintf("Write after Read does not reproduce the accepted input (err=%v)", err), map[string]string{"input": hx(snap), "output": hx(w.Bytes())})
		}
		var mp2 multiproof.MultiProof
		if err := mp2.Read(bytes.NewReader(w.Bytes())); err != nil || !mp2.Equal(mp) || !mp.Equal(mp2) {
			c.Fail("roundtrip/MultiProof", fmt.Sprintf("Read(Write(p)) != p (err=%v)", err), nil)
		}
		// field values
		if len(mp.IPA.L) != 8 || len(mp.IPA.R) != 8 {
			c.Fail("shape/MultiProof.Read", "accepted proof does not have 8 L and 8 R points", nil)
		} else {
			if FrToBig(&mp.IPA.A_scalar).Cmp(ref.FromLE(snap[544:576])) != 0 {
				c.Fail("wrong-field/scalar", "decoded scalar differs from the little-endian value", nil)
			}
			i := rng.Intn(17)
			var e *banderwagon.Element
			switch {
			case i == 0:
				e = &mp.D
			case i <= 8:
				e = &mp.IPA.L[i-1]
			default:
				e = &mp.IPA.R[i-9]
			}
			a, _ := ref.Deserialize(snap[32*i : 32*i+32])
			if g, ok := ElemToRef(e); !ok || !ref.ClassEqual(g, ref.FromAffine(a)) {
				c.Fail("wrong-field/point", fmt.Sprintf("decoded point %d differs from the reference decoding", i), nil)
			}
		}
	}
	c.Eval("MultiProof.Read|"+s.cls+"|"+rk.name+"|"+v, len(s.b) > 0)
}

func c10readIPA(c *mon.Ctx, or *c10oracle, s c10str, rk readerKind, rng *rand.Rand) {
	// IPAProof.Read looks at the bytes from offset 32 of a multiproof string
	// (fields L, R, a) - or from offset 0 for short strings.
	data := s.b
	if len(data) >= 576 {
		data = data[32:]
	}
	snap := append([]byte(nil), data...)
	rd, pos := rk.mk(data, rng)
	want := or.ipaOK(data)
	var ip ipa.IPAProof
	if rng.Intn(2) == 0 {
		ip = c10usedIPA
	}
	var err error
	if p, st := mon.Try(func() { err = ip.Read(rd) }); p != nil {
		c.Fail("panic/IPAProof.Read", fmt.Sprintf("IPAProof.Read panicked on %s via %s: %v", s.cls, rk.name, p), map[string]string{"stack": st, "input": hx(snap)})
		return
	}
	v := "reject"
	if want {
		v = "accept"
	}
	switch {
	case want && err != nil:
		c.Fail("rejected-valid/IPAProof.Read/"+rk.name, fmt.Sprintf("IPAProof.Read rejects valid fields (%s) through reader %s: %v", s.cls, rk.name, err), map[string]string{"input": hx(snap)})
	case !want && err == nil:
		c.Fail("accepted-invalid/IPAProof.Read/"+s.cls, fmt.Sprintf("IPAProof.Read accepts %d bytes of class %s through reader %s", len(data), s.cls, rk.name), map[string]string{"input": hx(snap)})
	case !want:
		c.Count("reject_expected_and_observed", 1)
	default:
		c.Count("accept_expected_and_observed", 1)
		c10usedIPA = ip
		if pos != nil && pos() != 544 && rk.name != "half" {
			c.Fail("consumed-wrong-length/IPAProof.Read", fmt.Sprintf("IPAProof.Read consumed %d bytes instead of 544 (%s)", pos(), rk.name), nil)
		}
		var w bytes.Buffer
		if err := ip.Write(&w); err != nil || !bytes.Equal(w.Bytes(), snap[:544]) {
			c.Fail("write-differs-from-input/IPAProof", "IPAProof.Write after Read does not reproduce the input", nil)
		}
		var ip2 ipa.IPAProof
		if err := ip2.Read(bytes.NewReader(w.Bytes())); err != nil || !ip2.Equal(ip) {
			c.Fail("roundtrip/IPAProof", "Read(Write(p)) != p", nil)
		}
	}
	c.Eval("IPAProof.Read|"+s.cls+"|"+rk.name+"|"+v, len(data) > 0)
}

// c10readFault: a reader that fails with a non-EOF error at offset `at`.
func c10readFault(c *mon.Ctx, or *c10oracle, s c10str, at int, rng *rand.Rand) {
	c.Count("reader_faults_injected", 1)
	errs := []error{errInjected, iotest.ErrTimeout, io.ErrUnexpectedEOF, io.ErrClosedPipe}
	ferr := errs[rng.Intn(len(errs))]
	rd := &chunkReader{data: s.b, chunk: 1 + rng.Intn(100), failAt: at, failErr: ferr}
	var mp multiproof.MultiProof
	var err error
	if p, st := mon.Try(func() { err = mp.Read(rd) }); p != nil {
		c.Fail("panic/MultiProof.Read", fmt.Sprintf("MultiProof.Read panicked with a reader failing at offset %d: %v", at, p), map[string]string{"stack": st})
		return
	}
	// the stream is usable only if the fault lies beyond everything Read needs,
	// i.e. never for at <= len: a clean end (EOF) is never delivered.
	clean := at > len(s.b)
	want := clean && or.multiOK(s.b)
	if err == nil && !want {
		c.Fail("accepted-despite-reader-error/MultiProof.Read", fmt.Sprintf("MultiProof.Read returned nil although the reader failed with %q at offset %d of %d", ferr, at, len(s.b)), nil)
	}
	if err != nil && want {
		c.Fail("rejected-valid/MultiProof.Read/fault-beyond-end", "rejected although the fault lies beyond the end of the stream", nil)
	}
	ac := "fault-inside"
	if at >= 576 {
		ac = "fault-at-or-after-576"
	}
	c.Eval("MultiProof.Read|"+s.cls+"|"+ac+"|reader-error", len(s.b) > 0)
	// IPAProof.Read: fails iff the fault is before byte 544 of its input
	data := s.b
	rd2 := &chunkReader{data: data, chunk: 1 + rng.Intn(100), failAt: at, failErr: ferr}
	var ip ipa.IPAProof
	if p, _ := mon.Try(func() { err = ip.Read(rd2) }); p != nil {
		c.Fail("panic/IPAProof.Read", fmt.Sprintf("IPAProof.Read panicked with a reader failing at offset %d: %v", at, p), nil)
		return
	}
	wantIPA := or.ipaOK(data) && at >= 544
	if (err == nil) != wantIPA {
		c.Fail("reader-error/IPAProof.Read", fmt.Sprintf("IPAProof.Read err=%v with reader failing at offset %d (len %d, fields valid=%v)", err, at, len(data), or.ipaOK(data)), nil)
	}
	c.Eval("IPAProof.Read|"+s.cls+"|"+ac+"|reader-error", len(data) > 0)
}

type failWriter struct {
	calls  int
	failAt int
	short  bool
	full   bool
	buf    bytes.Buffer
}

func (w *failWriter) Write(p []byte) (int, error) {
	defer func() { w.calls++ }()
	if w.calls == w.failAt {
		if w.full {
			// everything was taken (buffered) and the failure is reported with the full count
			w.buf.Write(p)
			return len(p), errInjected
		}
		if w.short && len(p) > 1 {
			w.buf.Write(p[:len(p)/2])
			return len(p) / 2, io.ErrShortWrite
		}
		return 0, errInjected
	}
	w.buf.Write(p)
	return len(p), nil
}

func c10write(c *mon.Ctx, valid []byte, rng *rand.Rand) {
	var mp multiproof.MultiProof
	if err := mp.Read(bytes.NewReader(valid)); err != nil {
		return // reported elsewhere
	}
	// count the write calls of a clean run
	probe := &failWriter{failAt: -1}
	if err := mp.Write(probe); err != nil {
		c.Fail("write-error-on-good-writer", "MultiProof.Write failed on a good writer: "+err.Error(), nil)
		return
	}
	n := probe.calls
	for at := 0; at < n; at++ {
		for _, short := range []bool{false, true} {
			w := &failWriter{failAt: at, short: short}
			var err error
			if p, _ := mon.Try(func() { err = mp.Write(w) }); p != nil {
				c.Fail("panic/MultiProof.Write", fmt.Sprintf("MultiProof.Write panicked when write call %d failed: %v", at, p), nil)
				continue
			}
			c.Count("write_faults_injected", 1)
			if err == nil {
				c.Fail("write-error-ignored/MultiProof.Write", fmt.Sprintf("MultiProof.Write returned nil although write call %d of %d failed (short=%v)", at, n, short), nil)
			}
			c.Eval(fmt.Sprintf("MultiProof.Write|fail-at-call|%d|short=%v", at, short), true)
		}
		wf := &failWriter{failAt: at, full: true}
		if err := mp.Write(wf); err == nil {
			c.Fail("write-error-ignored/MultiProof.Write/full-count", fmt.Sprintf("MultiProof.Write returned nil although write call %d of %d returned (len(p), error)", at, n), nil)
		}
		c.Count("write_faults_injected", 1)
	}
	// a writer that is itself a user of the library: before accepting one of the chunks it reads and writes another proof
	for _, at := range []int{0, rng.Intn(n)} {
		w := &nestWriter{at: at, fn: func() { c10nested(rng) }}
		if err := mp.Write(w); err != nil || !bytes.Equal(w.buf, valid) {
			c.Fail("write-differs/MultiProof.Write/nested", fmt.Sprintf("MultiProof.Write does not emit the proof's bytes (err=%v) when the writer serialises another proof from inside its Write method (call %d)", err, at), nil)
		}
		w2 := &nestWriter{at: at % 17, fn: func() { c10nested(rng) }}
		if err := mp.IPA.Write(w2); err != nil || !bytes.Equal(w2.buf, valid[32:]) {
			c.Fail("write-differs/IPAProof.Write/nested", fmt.Sprintf("IPAProof.Write does not emit the proof's bytes (err=%v) when the writer serialises another proof from inside its Write method", err), nil)
		}
		c.Eval("MultiProof.Write|nested-writer", true)
	}
	// IPAProof.Write
	probe2 := &failWriter{failAt: -1}
	mp.IPA.Write(probe2)
	for at := 0; at < probe2.calls; at++ {
		w := &failWriter{failAt: at, short: rng.Intn(2) == 0}
		if err := mp.IPA.Write(w); err == nil {
			c.Fail("write-error-ignored/IPAProof.Write", fmt.Sprintf("IPAProof.Write returned nil although write call %d failed", at), nil)
		}
		c.Count("write_faults_injected", 1)
		c.Eval(fmt.Sprintf("IPAProof.Write|fail-at-call|%d", at), true)
	}
}
