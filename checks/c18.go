package checks

import (
	"fmt"
	"math/big"
	"math/rand"

	"github.com/crate-crypto/go-ipa/bandersnatch/fr"
	"github.com/crate-crypto/go-ipa/ipa"

	"verif/mon"
	"verif/ref"
)

func init() {
	register(&Check{
		ID:    "C18",
		Title: "Barycentric evaluation and in-domain division are exact polynomial operations",
		Rule: "DivideOnDomain for all 256 indices x a polynomial family (random, zero, constants, unit vectors e0/e1/e127/e128/e255/random, X^255, all r-1, linear, sparse) against the reference quotient, a tier-sized share of them recomputed through coefficient form " +
			"(interpolate, synthetic division, re-evaluate); ComputeBarycentricCoefficients for z in {256,257,258,2^32,2^64,(r-1)/2,r-2,r-1,random} against L_i(z) from the definition and against Horner evaluation of the interpolated polynomial; all 512+510 live table entries; " +
			"a class is (function, polynomial kind, index or point class, oracle route); non-trivial = polynomial not identically zero",
		Technique:        "reference-model monitor: coefficient-form polynomial arithmetic in math/big (no barycentric tables) on every call + table walk through hook H4 + operand snapshot",
		MinEvals:         map[string]int64{"quick": 2000, "thorough": 20000},
		MinClasses:       map[string]int64{"quick": 300, "thorough": 300},
		RequiredCounters: []string{"edge_value_calls_before_coefficients", "table_entries_checked", "quotients_via_coefficient_form", "lagrange_vectors_checked"},
		Assumptions:      []string{"math/big polynomial arithmetic over F_r is the oracle; its two routes (coefficient form, evaluation form) are cross-checked in the oracle self-test"},
		Plan: func(tier string) []Child {
			return shardsVar(pick(tier, 8, 16), Child{Flavour: "plain", NCPU: 1})
		},
		Run: runC18,
	})
}

type c18poly struct {
	kind string
	f    []*big.Int
}

func c18polys(rng *rand.Rand, n int) []c18poly {
	mk := func(kind string, g func(i int) *big.Int) c18poly {
		f := make([]*big.Int, 256)
		for i := range f {
			f[i] = new(big.Int).Mod(g(i), ref.R)
		}
		return c18poly{kind, f}
	}
	rm1 := new(big.Int).Sub(ref.R, bigOne)
	out := []c18poly{
		mk("random", func(int) *big.Int { return randBig(rng, ref.R) }),
		mk("zero", func(int) *big.Int { return new(big.Int) }),
		mk("const", func(int) *big.Int { return big.NewInt(7) }),
		mk("const-r-1", func(int) *big.Int { return rm1 }),
		mk("X^255", func(i int) *big.Int { return new(big.Int).Exp(big.NewInt(int64(i)), big.NewInt(255), ref.R) }),
		mk("linear", func(i int) *big.Int { return big.NewInt(int64(i)) }),
	}
	for _, u := range []int{0, 1, 127, 128, 255, rng.Intn(256)} {
		u := u
		out = append(out, mk(fmt.Sprintf("unit%d", u), func(i int) *big.Int {
			if i == u {
				return big.NewInt(1)
			}
			return new(big.Int)
		}))
	}
	out = append(out, mk("sparse", func(i int) *big.Int {
		if rng.Intn(40) == 0 {
			return randBig(rng, ref.R)
		}
		return new(big.Int)
	}))
	out = append(out, mk("edge-values", func(i int) *big.Int { return randScalar(rng) }))
	// values, and differences between values, that are small integers in the library's internal (Montgomery) representation
	base := randBig(rng, ref.R)
	out = append(out, mk("montgomery-small-steps", func(i int) *big.Int {
		return new(big.Int).Add(base, new(big.Int).Mul(big.NewInt(int64(i%4)), rInvFr))
	}))
	out = append(out, mk("montgomery-small-values", func(i int) *big.Int { return new(big.Int).Mul(big.NewInt(int64(i%7)), rInvFr) }))
	for len(out) < n {
		out = append(out, mk("random", func(int) *big.Int { return randBig(rng, ref.R) }))
	}
	return out
}

func toFr(f []*big.Int) []fr.Element {
	out := make([]fr.Element, len(f))
	for i := range f {
		out[i] = FrFromBig(f[i])
	}
	return out
}

func isZeroPoly(f []*big.Int) bool {
	for _, v := range f {
		if v.Sign() != 0 {
			return false
		}
	}
	return true
}

func runC18(c *mon.Ctx) {
	pw := ipa.NewPrecomputedWeights()
	// ---- live tables ----
	if c.Mine(0) {
		c.Case("tables", func() {
			w, wi := ref.Weights()
			for _, src := range []string{"fresh", "config"} {
				t := pw
				if src == "config" {
					t = GetEnv().Conf.PrecomputedWeights
				}
				bw, inv := t.VerifTables()
				if len(bw) != 512 || len(inv) != 510 {
					c.Fail("table-shape", fmt.Sprintf("tables have lengths %d and %d", len(bw), len(inv)), nil)
					return
				}
				for i := 0; i < 256; i++ {
					if FrToBig(&bw[i]).Cmp(w[i]) != 0 {
						c.Fail("table/A'(i)", fmt.Sprintf("barycentricWeights[%d] != A'(%d)", i, i), nil)
					}
					if FrToBig(&bw[256+i]).Cmp(wi[i]) != 0 {
						c.Fail("table/1/A'(i)", fmt.Sprintf("barycentricWeights[256+%d] != 1/A'(%d)", i, i), nil)
					}
					c.EvalN("table|weights|"+src, 2, true)
				}
				for k := 1; k < 256; k++ {
					ik := ref.InvR(big.NewInt(int64(k)))
					if FrToBig(&inv[k-1]).Cmp(ik) != 0 {
						c.Fail("table/1/k", fmt.Sprintf("invertedDomain[%d] != 1/%d", k-1, k), nil)
					}
					if FrToBig(&inv[k-1+255]).Cmp(ref.NegR(ik)) != 0 {
						c.Fail("table/-1/k", fmt.Sprintf("invertedDomain[%d] != -1/%d", k-1+255, k), nil)
					}
					c.EvalN("table|inverted-domain|"+src, 2, true)
				}
				c.Count("table_entries_checked", 512+510)
			}
		})
	}
	// ---- DivideOnDomain ----
	npoly := c.Pick(14, 100)
	coeffEvery := c.Pick(16, 2) // every coeffEvery-th (poly,index) pair is also recomputed through coefficient form
	polys := c18polys(c.Rand("polys"), npoly)
	pair := 0
	for pi, pl := range polys {
		for k0 := 0; k0 < 256; k0 += 16 {
			pair++
			if !c.Mine(pair) {
				continue
			}
			id := fmt.Sprintf("divide/p%d-%s/k%d", pi, pl.kind, k0)
			pl, k0, pi := pl, k0, pi
			c.Case(id, func() {
				lf := toFr(pl.f)
				snap := append([]fr.Element(nil), lf...)
				var coeffs []*big.Int
				for k := k0; k < k0+16; k++ {
					q := pw.DivideOnDomain(uint8(k), lf)
					for i := range lf {
						if lf[i] != snap[i] {
							c.Fail("input-modified/DivideOnDomain", "DivideOnDomain changed f", nil)
							copy(lf, snap)
							break
						}
					}
					if len(q) != 256 {
						c.Fail("wrong-length/DivideOnDomain", "quotient length", nil)
						continue
					}
					route := "evalform"
					want := ref.QuotientEvalForm(pl.f, k)
					if (k+pi)%coeffEvery == 0 {
						route = "coeffform"
						if coeffs == nil {
							coeffs = ref.Interpolate(pl.f)
						}
						w2 := ref.EvalOnDomain(ref.DivLinear(coeffs, big.NewInt(int64(k))))
						for i := range w2 {
							if w2[i].Cmp(want[i]) != 0 {
								c.Note("oracle routes disagree - harness problem")
								return
							}
						}
						c.Count("quotients_via_coefficient_form", 1)
					}
					// the returned vector is the caller's: overwrite a copy-independent part of it and ask again later
					if k%5 == 0 {
						q2 := pw.DivideOnDomain(uint8(k), lf)
						for i := range q {
							q[i].SetUint64(0xBAD)
						}
						// ... and whatever spare capacity it came with (append would write there): that must not be where
						// another result lives
						for ext, i := q[:cap(q)], len(q); i < len(ext); i++ {
							ext[i].SetUint64(0xBAD2)
						}
						q3 := pw.DivideOnDomain(uint8(k), lf)
						for i := range q3 {
							if q3[i] != q2[i] {
								c.Fail("result-aliases-internal-state/DivideOnDomain", fmt.Sprintf("DivideOnDomain(k=%d) returns a different vector after the caller modified an earlier result", k), nil)
								break
							}
						}
						q = q3
						c.Count("results_scribbled_and_recomputed", 1)
					}
					for i := range q {
						if FrToBig(&q[i]).Cmp(want[i]) != 0 {
							sig := "quotient/off-index"
							if i == k {
								sig = "quotient/at-index"
							}
							c.Fail(sig, fmt.Sprintf("DivideOnDomain(k=%d, %s)[%d] wrong (distance %d)", k, pl.kind, i, i-k), map[string]interface{}{"k": k, "i": i, "poly": pl.kind})
							break
						}
					}
					kc := "kmid"
					switch {
					case k == 0 || k == 255:
						kc = fmt.Sprintf("k=%d", k)
					case k < 128:
						kc = "k<128"
					default:
						kc = "k>=128"
					}
					c.Eval(fmt.Sprintf("divide|%s|%s|k%%16=%d|%s", pl.kind, kc, k%16, route), !isZeroPoly(pl.f))
				}
			})
		}
	}
	c.Sample(map[string]interface{}{"function": "DivideOnDomain", "indices": "0..255", "polynomial_kinds": len(polys), "example_f_3": polys[0].f[3].Text(16)})
	// ---- barycentric coefficients ----
	r := ref.R
	pts := map[string]*big.Int{
		"256": big.NewInt(256), "257": big.NewInt(257), "258": big.NewInt(258), "2^32": new(big.Int).Lsh(bigOne, 32), "2^64": new(big.Int).Lsh(bigOne, 64),
		"(r-1)/2": new(big.Int).Rsh(r, 1), "r-2": new(big.Int).Sub(r, big.NewInt(2)), "r-1": new(big.Int).Sub(r, bigOne), "511": big.NewInt(511), "65536": big.NewInt(65536),
	}
	for _, k := range []int64{1, 2, 255, 256, 257, 12345, 1 << 40} {
		pts[fmt.Sprintf("montgomery-small-%d", k)] = new(big.Int).Mod(new(big.Int).Mul(big.NewInt(k), rInvFr), r)
	}
	pts["montgomery-2^64-1"] = new(big.Int).Mod(new(big.Int).Mul(new(big.Int).Sub(new(big.Int).Lsh(bigOne, 64), bigOne), rInvFr), r)
	pts["2^64+5"] = new(big.Int).Add(new(big.Int).Lsh(bigOne, 64), big.NewInt(5))
	pts["2^128+255"] = new(big.Int).Add(new(big.Int).Lsh(bigOne, 128), big.NewInt(255))
	rngz := c.Rand("points")
	for i := 0; i < c.Pick(6, 60); i++ {
		pts[fmt.Sprintf("random%d", i)] = new(big.Int).Add(big.NewInt(256), randBig(rngz, new(big.Int).Sub(r, big.NewInt(256))))
	}
	var coeffCache = map[int][]*big.Int{}
	for j, name := range sortedKeys(pts) {
		if !c.Mine(j) {
			continue
		}
		name, z := name, pts[name]
		c.Case("barycentric/"+name, func() {
			// history: legal calls with edge values first (a batch inversion of a vector with zeros, coefficients asked for
			// a point of the domain - result unused); the coefficients for z must not depend on them
			if j%2 == 0 {
				fieldEdgeCalls(nil, c.Rand("edge/"+name))
				var zd fr.Element
				zd.SetUint64(uint64(j*37) % 256)
				mon.Try(func() { pw.ComputeBarycentricCoefficients(zd) })
				c.Count("edge_value_calls_before_coefficients", 1)
			}
			b := pw.ComputeBarycentricCoefficients(FrFromBig(z))
			want := ref.LagrangeAt(z)
			if len(b) != 256 {
				c.Fail("wrong-length/ComputeBarycentricCoefficients", "length", nil)
				return
			}
			for i := range b {
				if FrToBig(&b[i]).Cmp(want[i]) != 0 {
					c.Fail("lagrange-coefficient", fmt.Sprintf("ComputeBarycentricCoefficients(%s)[%d] != L_%d(z)", name, i, i), map[string]string{"z": z.Text(16)})
					break
				}
			}
			c.Count("lagrange_vectors_checked", 1)
			// history: the caller modifies the returned coefficients in place, then asks for the same point again
			for i := range b {
				b[i].SetUint64(uint64(i) + 3)
			}
			b = pw.ComputeBarycentricCoefficients(FrFromBig(z))
			for i := range b {
				if i >= len(want) || FrToBig(&b[i]).Cmp(want[i]) != 0 {
					c.Fail("result-aliases-internal-state/ComputeBarycentricCoefficients", fmt.Sprintf("ComputeBarycentricCoefficients(%s) is wrong after the caller modified the vector returned by an earlier call", name), nil)
					break
				}
			}
			c.Count("results_scribbled_and_recomputed", 1)
			pc := name
			if len(name) > 6 && name[:6] == "random" {
				pc = "random"
			}
			c.Eval("barycentric|coefficients|"+pc, true)
			// <f, b> == Horner value of the interpolated polynomial
			for pi := 0; pi < 4 && pi < len(polys); pi++ {
				if coeffCache[pi] == nil {
					coeffCache[pi] = ref.Interpolate(polys[pi].f)
				}
				ip, err := ipa.InnerProd(toFr(polys[pi].f), b)
				if err != nil {
					c.Fail("error/InnerProd", err.Error(), nil)
					continue
				}
				if FrToBig(&ip).Cmp(ref.EvalPoly(coeffCache[pi], z)) != 0 {
					c.Fail("evaluation", fmt.Sprintf("<f, barycentric(%s)> != p(z) for %s", name, polys[pi].kind), nil)
				}
				c.Eval("barycentric|evaluation|"+pc+"|"+polys[pi].kind, !isZeroPoly(polys[pi].f))
			}
		})
	}
}
