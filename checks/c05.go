package checks

import (
	"fmt"
	"math/big"
	"math/rand"
	"runtime"

	"github.com/crate-crypto/go-ipa/bandersnatch/fr"
	"github.com/crate-crypto/go-ipa/banderwagon"
	"github.com/crate-crypto/go-ipa/ipa"

	"verif/mon"
	"verif/ref"
)

func init() {
	register(&Check{
		ID:    "C05",
		Title: "Pedersen commitment equals sum v_i*G_i and is linear",
		Rule: "(1) structural walk of the live precomputed tables (hook H3): every one of the ~3.6 million entries windows[k][j] of all 256 basis points is compared with (j+1)*2^(w*k)*G_i computed by a reference doubling/addition chain from the reference's own CRS, and checked for T=X*Y; " +
			"(2) recoding monitor: Commit / MSMPrecomp.MSM on sparse vectors whose hot coefficients carry chosen digit patterns (for every window index of the position's window width: digit in {0,1,2^(w-1)-1,2^(w-1),2^(w-1)+1,2^w-1,random} x carry-in {0,1}; all-ones chains; carry into the top window; r-1; 2^252; small values), every basis position at least once, dense vectors of length 1,5,6,255,256 and short vectors, compared as group element and as bytes with the reference sum; linearity, scaling, single-coefficient update and agreement with ipa.MultiScalar checked on the same vectors; " +
			"a class is (window width, window index, digit class, carry-in) or (vector shape); non-trivial = non-zero vector",
		Technique:        "structural invariant of live data at a quiescent point (exhaustive table walk through hook H3) + reference-model monitor on Commit with digit-pattern-targeted inputs",
		MinEvals:         map[string]int64{"quick": 3000000, "thorough": 3500000},
		MinClasses:       map[string]int64{"quick": 300, "thorough": 600},
		RequiredCounters: []string{"table_entries_checked", "commits_compared_with_reference", "positions_covered_sparse"},
		Assumptions:      []string{"the reference CRS reproduces the published first/last point and digest of all 256 encodings", "table walk is exhaustive over the table; Commit inputs are sampled by digit class"},
		Plan: func(tier string) []Child {
			var out []Child
			n := 16
			for i := 0; i < n; i++ {
				out = append(out, Child{Flavour: "plain", NCPU: []int{1, 2, 3, 5, 1, 2, 4, 7}[i%8], Shard: i, NShards: n})
			}
			return plus386(out, 3)
		},
		Run: runC05,
	})
}

func c05tableWalk(c *mon.Ctx, env *Env) {
	pair := 0
	for i := 0; i < 256; i++ {
		w, windows := env.Conf.PrecompMSM.VerifTable(i)
		// any window width dividing 256 is a legitimate table layout; the contents are checked relative to it
		if w < 1 || w > 20 || 256%w != 0 || len(windows) != 256/w {
			c.Fail("table-shape", fmt.Sprintf("basis point %d: window width %d with %d windows", i, w, len(windows)), nil)
			continue
		}
		for k := 0; k < len(windows); k++ {
			pair++
			if !c.Mine(pair) {
				continue
			}
			id := fmt.Sprintf("table/point%d/window%d", i, k)
			i, k := i, k
			c.Case(id, func() {
				// 2^(w*k) * G_i by doubling
				base := env.Ref.SRS[i]
				for d := 0; d < w*k; d++ {
					base = ref.Double(base)
				}
				win := windows[k]
				if len(win) != 1<<(uint(w)-1) {
					c.Fail("table-shape", fmt.Sprintf("point %d window %d has %d entries", i, k, len(win)), nil)
					return
				}
				cur := base
				for j := range win {
					x, y, t := FpToBig(&win[j].X), FpToBig(&win[j].Y), FpToBig(&win[j].T)
					// the entry must be a representative of the class of (j+1)*2^(w*k)*G_i: a valid curve point with x/y equal to the reference's
					if ref.MulP(x, cur.Y).Cmp(ref.MulP(y, cur.X)) != 0 || !(ref.Affine{X: x, Y: y}).OnCurve() {
						c.Fail("table-entry-wrong", fmt.Sprintf("windows[%d][%d] of basis point %d (w=%d) is not %d*2^%d*G_%d", k, j, i, w, j+1, w*k, i), map[string]interface{}{"point": i, "window": k, "entry": j})
						return
					}
					if ref.MulP(x, y).Cmp(t) != 0 {
						c.Fail("table-entry-T", fmt.Sprintf("windows[%d][%d] of basis point %d has T != X*Y", k, j, i), nil)
						return
					}
					cur = ref.Add(cur, base)
				}
				c.EvalN(fmt.Sprintf("table|w=%d|window=%d", w, k), int64(len(win)), true)
				c.Count("table_entries_checked", int64(len(win)))
			})
		}
	}
}

// c05scalar builds a scalar with a chosen digit class at window k of width w,
// and a chosen carry into that window.
func c05scalar(rng *rand.Rand, w, k, digit, carry int) *big.Int {
	nw := 256 / w
	v := new(big.Int)
	half := int64(1) << uint(w-1)
	full := int64(1) << uint(w)
	setWin := func(idx int, val int64) {
		t := new(big.Int).Lsh(big.NewInt(val), uint(idx*w))
		v.Or(v, t)
	}
	fill := rng.Intn(3) // 0: other windows zero, 1: random, 2: random small
	for idx := 0; idx < nw; idx++ {
		if idx == k || (idx == k-1 && k > 0) {
			continue
		}
		switch fill {
		case 1:
			setWin(idx, rng.Int63n(full))
		case 2:
			if rng.Intn(4) == 0 {
				setWin(idx, rng.Int63n(full))
			}
		}
	}
	if k > 0 {
		// window k-1 decides the carry into window k (given no carry into k-1 ... which fill may provide; approximate)
		if carry == 1 {
			setWin(k-1, half+1+rng.Int63n(half-1))
		} else {
			setWin(k-1, rng.Int63n(half))
			if fill != 0 && k > 1 {
				// make sure window k-2 cannot push k-1 over the half: clear it
				mask := new(big.Int).Lsh(big.NewInt(full-1), uint((k-2)*w))
				v.AndNot(v, mask)
			}
		}
	}
	var dv int64
	switch digit {
	case 0:
		dv = 0
	case 1:
		dv = 1
	case 2:
		dv = half - 1
	case 3:
		dv = half
	case 4:
		dv = half + 1
	case 5:
		dv = full - 1
	default:
		dv = rng.Int63n(full)
	}
	setWin(k, dv)
	return v.Mod(v, ref.R)
}

var c05digitNames = []string{"0", "1", "half-1", "half", "half+1", "max", "random"}

func c05special(rng *rand.Rand) (*big.Int, string) {
	r := ref.R
	switch rng.Intn(11) {
	case 9:
		// Montgomery representation is the small integer k
		k := int64(1 + rng.Intn(1<<16))
		if rng.Intn(3) == 0 {
			k = []int64{1, 127, 128, 129, 32767, 32768, 32769}[rng.Intn(7)]
		}
		return new(big.Int).Mod(new(big.Int).Mul(big.NewInt(k), rInvFr), r), "montgomery-small"
	case 10:
		es := edgeScalars()
		return new(big.Int).Set(es[rng.Intn(len(es))]), "edge"
	case 0:
		return new(big.Int).Sub(r, bigOne), "r-1"
	case 1:
		return new(big.Int).Lsh(bigOne, 252), "2^252"
	case 2:
		// all-ones chain over a random bit range
		lo := rng.Intn(250)
		hi := lo + 1 + rng.Intn(252-lo)
		v := new(big.Int).Sub(new(big.Int).Lsh(bigOne, uint(hi)), new(big.Int).Lsh(bigOne, uint(lo)))
		return v.Mod(v, r), "ones-chain"
	case 3:
		// 0xFFFF.. chain reaching the top window: carry into the top window
		v := new(big.Int).Sub(new(big.Int).Lsh(bigOne, 248), big.NewInt(int64(1+rng.Intn(3))))
		return v, "carry-into-top"
	case 4:
		return big.NewInt(int64(rng.Intn(65536))), "small"
	case 5:
		// every window exactly half
		v := new(big.Int)
		for i := 0; i < 31; i++ {
			v.Or(v, new(big.Int).Lsh(big.NewInt(0x80), uint(8*i)))
		}
		return v, "all-half-8"
	case 6:
		v := new(big.Int)
		for i := 0; i < 15; i++ {
			v.Or(v, new(big.Int).Lsh(big.NewInt(0x8000), uint(16*i)))
		}
		return v, "all-half-16"
	case 7:
		return new(big.Int).Sub(r, big.NewInt(int64(2+rng.Intn(300)))), "near-r"
	default:
		return randBig(rng, r), "random"
	}
}

// c05check compares Commit(v) with the reference sum.
func c05check(c *mon.Ctx, env *Env, v []*big.Int, cls string, extra bool, rng *rand.Rand) {
	lv := toFr(v)
	snap := append([]fr.Element(nil), lv...)
	got := env.Conf.Commit(lv)
	for i := range lv {
		if lv[i] != snap[i] {
			c.Fail("input-modified/Commit", "Commit modified the scalar vector", nil)
			break
		}
	}
	var ps []ref.Point
	var ks []*big.Int
	for i, s := range v {
		if s.Sign() != 0 {
			ps = append(ps, env.Ref.SRS[i])
			ks = append(ks, s)
		}
	}
	want := ref.MSM(ps, ks)
	det := func() map[string]interface{} {
		d := map[string]interface{}{"class": cls, "length": len(v)}
		var nz []string
		for i, s := range v {
			if s.Sign() != 0 && len(nz) < 8 {
				nz = append(nz, fmt.Sprintf("v[%d]=%s", i, s.Text(16)))
			}
		}
		d["nonzero"] = nz
		return d
	}
	gp, ok := ElemToRef(&got)
	nt := len(ks) > 0
	if !ok || !gp.Affine().OnCurve() {
		c.Fail("commit-invalid-point", "Commit returned an invalid point ("+cls+")", det())
		c.Eval("commit|"+cls, nt)
		return
	}
	if !ref.ClassEqual(gp, want) {
		c.Fail("commit-differs-from-reference", "Commit(v) != sum v_i*G_i ("+cls+")", det())
	} else if gb, wb := got.Bytes(), ref.Serialize(want); gb != wb {
		c.Fail("commit-bytes-differ", "Commit(v) bytes differ from the reference encoding ("+cls+")", det())
	}
	c.Count("commits_compared_with_reference", 1)
	c.Eval("commit|"+cls, nt)
	// MSMPrecomp.MSM directly is the same entry point; generic MSM must agree
	if extra {
		full := make([]fr.Element, len(lv))
		copy(full, lv)
		gen, err := ipa.MultiScalar(env.Conf.SRS[:len(full)], full)
		if err != nil {
			c.Fail("error/MultiScalar", err.Error(), nil)
		} else if g2, ok2 := ElemToRef(&gen); !ok2 || !ref.ClassEqual(g2, want) {
			c.Fail("multiscalar-differs-from-reference", "ipa.MultiScalar(SRS, v) != sum v_i*G_i ("+cls+")", det())
		}
		// the generic MSM with its task-count option set as on a machine with many more cores (ipa.MultiScalar passes
		// the CPU count): the published SRS prefix and the same scalars must give the same element
		if len(full) > 0 {
			tasks := []int{48, 64, 100, 128, 300, 1024}[rng.Intn(6)]
			var g3 banderwagon.Element
			if _, err := g3.MultiExp(env.Conf.SRS[:len(full)], full, banderwagon.MultiExpConfig{NbTasks: tasks, ScalarsMont: true}); err != nil {
				c.Fail("error/MultiExp", err.Error(), nil)
			} else if gp3, ok3 := ElemToRef(&g3); !ok3 || !ref.ClassEqual(gp3, want) {
				c.Fail("multiexp-over-srs-differs-from-reference", fmt.Sprintf("Element.MultiExp(SRS[:%d], v, NbTasks=%d) != sum v_i*G_i (%s)", len(full), tasks, cls), det())
			}
			c.Count("generic_msm_many_tasks_compared", 1)
		}
		// scaling and update
		k := randScalar(rng)
		kv := make([]*big.Int, len(v))
		for i := range v {
			kv[i] = ref.MulR(v[i], k)
		}
		ck := env.Conf.Commit(toFr(kv))
		var sk banderwagon.Element
		fk := FrFromBig(k)
		sk.ScalarMul(&got, &fk)
		if !ck.Equal(&sk) {
			if kp, ok3 := ElemToRef(&ck); !ok3 || !ref.ClassEqual(kp, ref.Mul(want, k)) {
				c.Fail("commit-scaling", "Commit(k*a) != k*Commit(a): the commitment side is wrong ("+cls+")", det())
			} else {
				c.Fail("commit-scaling", "Commit(k*a) != k*Commit(a): the scalar multiplication side is wrong ("+cls+")", det())
			}
		}
		if len(v) > 0 {
			pos := rng.Intn(len(v))
			delta := randScalar(rng)
			uv := append([]*big.Int(nil), v...)
			uv[pos] = ref.AddR(v[pos], delta)
			cu := env.Conf.Commit(toFr(uv))
			var dg, upd banderwagon.Element
			fd := FrFromBig(delta)
			dg.ScalarMul(&env.Conf.SRS[pos], &fd)
			upd.Add(&got, &dg)
			if !cu.Equal(&upd) {
				c.Fail("commit-update", fmt.Sprintf("single-coefficient update at %d: Commit(a+delta*e_i) != Commit(a)+delta*G_i (%s)", pos, cls), det())
			}
		}
		c.EvalN("commit-extras|"+cls, 3, nt)
	}
}

func runC05(c *mon.Ctx) {
	env := GetEnv()
	// the library's SRS must be the reference's CRS
	if c.Mine(0) {
		c.Case("srs", func() {
			for i := range env.Conf.SRS {
				g, ok := ElemToRef(&env.Conf.SRS[i])
				if !ok || !ref.ClassEqual(g, env.Ref.SRS[i]) {
					c.Fail("srs-differs", fmt.Sprintf("SRS[%d] differs from the reference CRS", i), nil)
				}
			}
			c.EvalN("srs", 256, true)
		})
	}
	c05tableWalk(c, env)
	mon.SchedTake()
	if c.Mine(1) {
		c.Case("second-config-after-crs-results-were-modified", func() {
			rng := c.Rand("second-config")
			// a caller asks for a few basis points, appends to the slice and overwrites entries - its own business ...
			pts := ipa.GenerateRandomPoints(5)
			pts = append(pts, banderwagon.Generator)
			for i := range pts {
				pts[i].Double(&pts[i])
			}
			all := ipa.GenerateRandomPoints(256)
			for i := 0; i < len(all); i += 3 {
				all[i].SetIdentity()
			}
			// ... a configuration built afterwards, and the one built before, must still be the CRS
			conf2, err := ipa.NewIPASettings()
			if err != nil {
				c.Fail("error/NewIPASettings", err.Error(), nil)
				return
			}
			for name, conf := range map[string]*ipa.IPAConfig{"earlier": env.Conf, "later": conf2} {
				for i := range conf.SRS {
					g, ok := ElemToRef(&conf.SRS[i])
					if !ok || !ref.ClassEqual(g, env.Ref.SRS[i]) {
						c.Fail("srs-differs-after-history/"+name, fmt.Sprintf("SRS[%d] of the %s configuration differs from the CRS after a caller modified slices returned by GenerateRandomPoints", i, name), nil)
						break
					}
				}
			}
			v := make([]*big.Int, 256)
			for i := range v {
				v[i] = new(big.Int)
			}
			for _, pos := range []int{0, 3, 5, 6, 9, 255} {
				v[pos] = randScalar(rng)
			}
			e2 := &Env{Conf: conf2, Ref: env.Ref}
			c05check(c, e2, v, "second-config|after-modified-crs-results", false, rng)
		})
	}

	// ---- sparse digit-pattern commits ----
	covered := map[int]bool{}
	type job struct {
		pos, w, k, digit, carry int
	}
	var jobs []job
	if c.Thorough() {
		for pos := 0; pos < 256; pos++ {
			w := 8
			if pos < 5 {
				w = 16
			}
			for k := 0; k < 256/w; k++ {
				for digit := 0; digit < 7; digit++ {
					for carry := 0; carry < 2; carry++ {
						if pos >= 5 && (pos+k+digit+carry)%2 != 0 {
							continue // 8-bit tables: every (window, digit, carry) class on half of the positions each
						}
						jobs = append(jobs, job{pos, w, k, digit, carry})
					}
				}
			}
		}
	} else {
		rngj := c.Rand("jobs")
		for pos := 0; pos < 256; pos++ {
			w := 8
			if pos < 5 {
				w = 16
			}
			nper := 12
			if pos < 5 {
				nper = 16 * 7 * 2 // all classes for the 16-bit tables
			}
			for j := 0; j < nper; j++ {
				jb := job{pos, w, rngj.Intn(256 / w), rngj.Intn(7), rngj.Intn(2)}
				if pos < 5 {
					jb.k, jb.digit, jb.carry = j/14, (j/2)%7, j%2
				}
				jobs = append(jobs, jb)
			}
		}
	}
	const per = 40
	for b := 0; b*per < len(jobs); b++ {
		if !c.Mine(b) {
			continue
		}
		id := fmt.Sprintf("sparse/%d", b)
		b := b
		c.Case(id, func() {
			rng := c.Rand(id)
			for _, jb := range jobs[b*per : min(len(jobs), (b+1)*per)] {
				v := make([]*big.Int, 256)
				for i := range v {
					v[i] = new(big.Int)
				}
				v[jb.pos] = c05scalar(rng, jb.w, jb.k, jb.digit, jb.carry)
				// up to two more hot coefficients
				for e := 0; e < rng.Intn(3); e++ {
					p2 := rng.Intn(256)
					if rng.Intn(3) == 0 {
						p2 = rng.Intn(5)
					}
					v[p2], _ = c05special(rng)
				}
				n := 256
				if rng.Intn(4) == 0 {
					n = jb.pos + 1 + rng.Intn(256-jb.pos) // short vector
					for i := n; i < 256; i++ {
						v[i] = new(big.Int)
					}
				}
				cls := fmt.Sprintf("sparse|w=%d|window=%d|digit=%s|carry=%d", jb.w, jb.k, c05digitNames[jb.digit], jb.carry)
				c05check(c, env, v[:n], cls, rng.Intn(25) == 0, rng)
				if !covered[jb.pos] {
					covered[jb.pos] = true
					c.Count("positions_covered_sparse", 1)
				}
			}
			if b == 0 {
				jb := jobs[0]
				c.Sample(map[string]interface{}{"position": jb.pos, "window_width": jb.w, "window": jb.k, "digit_class": c05digitNames[jb.digit], "carry_in": jb.carry, "scalar": c05scalar(rng, jb.w, jb.k, jb.digit, jb.carry).Text(16)})
			}
		})
	}
	// ---- special scalars at every position, dense and short vectors ----
	nd := c.Pick(96, 1600)
	for b := 0; b < nd; b++ {
		if !c.Mine(b) {
			continue
		}
		id := fmt.Sprintf("dense/%d", b)
		b := b
		c.Case(id, func() {
			rng := c.Rand(id)
			// special single hot coefficients
			for j := 0; j < 12; j++ {
				v := make([]*big.Int, 256)
				for i := range v {
					v[i] = new(big.Int)
				}
				pos := rng.Intn(256)
				if j%3 == 0 {
					pos = rng.Intn(5)
				}
				s, name := c05special(rng)
				v[pos] = s
				w := 8
				if pos < 5 {
					w = 16
				}
				c05check(c, env, v, fmt.Sprintf("special|w=%d|%s", w, name), false, rng)
			}
			// dense / short vectors: every length class in every child (the children differ in NumCPU)
			lens := []int{0, 1, 2, 4, 5, 6, 7, 63, 64, 65, 100, 127, 128, 129, 200, 250, 255, 256}
			for li := 0; li < 3; li++ {
				n := lens[(b*3+li+c.Shard)%len(lens)]
				v := make([]*big.Int, n)
				kind := rng.Intn(3)
				for i := range v {
					switch kind {
					case 0:
						v[i] = randBig(rng, ref.R)
					case 1:
						v[i], _ = c05special(rng)
					default:
						v[i] = randScalar(rng)
					}
				}
				c05check(c, env, v, fmt.Sprintf("dense|len=%d|kind%d|ncpu=%d", n, kind, runtime.NumCPU()), li == 0, rng)
			}
			// linearity on two sparse-ish vectors
			a := make([]*big.Int, 256)
			bb := make([]*big.Int, 256)
			sum := make([]*big.Int, 256)
			for i := range a {
				a[i], bb[i] = new(big.Int), new(big.Int)
				if rng.Intn(20) == 0 {
					a[i] = randScalar(rng)
				}
				if rng.Intn(20) == 0 {
					bb[i] = randScalar(rng)
					if rng.Intn(3) == 0 {
						bb[i] = ref.NegR(a[i])
					}
				}
				sum[i] = ref.AddR(a[i], bb[i])
			}
			ca, cb, cs := env.Conf.Commit(toFr(a)), env.Conf.Commit(toFr(bb)), env.Conf.Commit(toFr(sum))
			var add banderwagon.Element
			add.Add(&ca, &cb)
			if !add.Equal(&cs) {
				c.Fail("commit-linearity", "Commit(a+b) != Commit(a)+Commit(b)", nil)
			}
			c.Eval("linearity", true)
		})
	}
}

func min(a, b int) int {
	if a < b {
		return a
	}
	return b
}
