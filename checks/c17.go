package checks

import (
	"fmt"
	"math/big"
	"math/rand"

	"github.com/crate-crypto/go-ipa/bandersnatch"
	"github.com/crate-crypto/go-ipa/bandersnatch/fp"

	"verif/mon"
	"verif/ref"
)

func init() {
	register(&Check{
		ID:    "C17",
		Title: "Base-field square root and point recovery from x are exact",
		Rule: "inputs v = w^e * u with w the primitive 2^32-th root of unity the algorithm is defined over and u of odd order, e chosen so that the discrete logarithm the algorithm sees has a chosen value in a chosen 8-bit block " +
			"(all 4x256 (block,value) pairs, for the exponent, its negation and its double), all 2^k-th roots of unity, 0, 1, p-1, small integers and seeded random values; for point recovery additionally x solved from a targeted y^2; " +
			"a class is (function, targeted block, block value / kind, residue or not); non-trivial = v not in {0,1}",
		Technique:        "reference-model monitor (Jacobi symbol, squaring and curve equation in math/big) on every call + operand snapshot",
		MinEvals:         map[string]int64{"quick": 60000, "thorough": 600000},
		MinClasses:       map[string]int64{"quick": 2000, "thorough": 4000},
		RequiredCounters: []string{"retained_results_rechecked", "nil_expected_and_observed", "roots_verified", "points_recovered"},
		Assumptions:      []string{"math/big Jacobi/ModSqrt are the oracle; the decimal constant of the 2^32-th root of unity is checked to have order exactly 2^32"},
		Plan: func(tier string) []Child {
			return plus386(shardsVar(pick(tier, 8, 16), Child{Flavour: "plain", NCPU: 1}), 3)
		},
		Run: runC17,
	})
}

var (
	c17omega = mustBig("10238227357739495823651030575849232062558860180284477541189508159991286009131", 10)
	c17Q     = new(big.Int).Rsh(new(big.Int).Sub(ref.P, bigOne), 32) // odd part of p-1
	c17two32 = new(big.Int).Lsh(bigOne, 32)
	c17Qinv  = new(big.Int).ModInverse(c17Q, c17two32)
)

// c17target returns w^e * u such that (w^e*u)^Q = w^D.
func c17target(D uint32, rng *rand.Rand) *big.Int {
	e := new(big.Int).Mul(new(big.Int).SetUint64(uint64(D)), c17Qinv)
	e.Mod(e, c17two32)
	v := new(big.Int).Exp(c17omega, e, ref.P)
	h := randNonZeroP(rng)
	u := new(big.Int).Exp(h, c17two32, ref.P)
	return ref.MulP(v, u)
}

func c17sqrt(c *mon.Ctx, v *big.Int, cls string) {
	x := FpFromBig(v)
	keep := x
	res := fp.SqrtPrecomp(&x)
	jac := big.Jacobi(v, ref.P)
	kind := "residue"
	switch {
	case v.Sign() == 0:
		kind = "zero"
		if res == nil || !res.IsZero() {
			c.Fail("sqrt-zero", "SqrtPrecomp(0) is not 0", nil)
		}
	case jac == -1:
		kind = "nonresidue"
		if res != nil {
			c.Fail("sqrt-of-non-residue", "SqrtPrecomp returned a value for the non-residue "+v.Text(16), map[string]string{"v": v.Text(16), "class": cls})
		} else {
			c.Count("nil_expected_and_observed", 1)
		}
	default:
		if res == nil {
			c.Fail("sqrt-nil-for-residue", "SqrtPrecomp returned nil for the square "+v.Text(16), map[string]string{"v": v.Text(16), "class": cls})
		} else {
			r := FpToBig(res)
			if ref.MulP(r, r).Cmp(v) != 0 {
				c.Fail("sqrt-wrong-root", "SqrtPrecomp: root^2 != v for "+v.Text(16), map[string]string{"v": v.Text(16), "root": r.Text(16), "class": cls})
			} else {
				c.Count("roots_verified", 1)
			}
		}
	}
	if x != keep {
		c.Fail("input-modified/SqrtPrecomp", "SqrtPrecomp modified its argument", map[string]string{"v": v.Text(16)})
	}
	// the returned element belongs to the caller: scribbling on it must not influence later calls, and what the caller
	// wrote must still be there after many further calls (the result is not a recycled slot)
	if res != nil {
		res.SetUint64(0xBAD0BAD0 + uint64(c17calls))
		mark := *res
		c17kept.Keep(c, "SqrtPrecomp", func() string {
			if *res != mark {
				return "the element returned by SqrtPrecomp for " + v.Text(16) + " no longer holds what the caller stored in it"
			}
			return ""
		})
	}
	c17calls++
	if c17calls%32 == 0 {
		var zero fp.Element
		z0 := fp.SqrtPrecomp(&zero)
		if z0 == nil || !z0.IsZero() {
			c.Fail("sqrt-zero-after-history", "SqrtPrecomp(0) is not 0 after earlier results were modified by the caller (returned value aliases internal state)", nil)
		}
		if z0 != nil {
			z0.SetUint64(0xBAD0BAD1)
		}
		c.Count("sqrt_zero_rechecks", 1)
	}
	c.Eval("sqrt|"+cls+"|"+kind, v.Cmp(bigOne) > 0)
}

var c17calls int
var c17kept Retainer

var c17pcalls int
var c17early []*big.Int

// c17requeryEarly recovers the first x values of the process again.
func c17requeryEarly(c *mon.Ctx) {
	early := c17early
	c17early = make([]*big.Int, 6) // full: no more additions while re-querying
	for _, xv := range early {
		if xv != nil {
			c17point(c, xv, "early-x-again")
		}
	}
	c17early = early
	c.Count("early_x_requeried", int64(len(early)))
}

func c17point(c *mon.Ctx, xv *big.Int, cls string) {
	x := FpFromBig(xv)
	keep := x
	yL, yS, ok := ref.YFromX(xv)
	// the first x values of the process are remembered and asked for again much later (after thousands of other x)
	if ok && len(c17early) < 6 {
		c17early = append(c17early, new(big.Int).Set(xv))
	}
	// the same x is asked for several times in a row, the two roots in varying order
	c17pcalls++
	for _, largest := range [][]bool{{true, false, true}, {false, true, false}, {false, false, true}, {true, true, false}}[c17pcalls%4] {
		pt := bandersnatch.GetPointFromX(&x, largest)
		if x != keep {
			c.Fail("input-modified/GetPointFromX", "GetPointFromX modified x", nil)
			x = keep
		}
		if !ok {
			if pt != nil {
				c.Fail("point-for-invalid-x", "GetPointFromX returned a point although no curve point has x="+xv.Text(16), map[string]string{"x": xv.Text(16)})
			} else {
				c.Count("nil_expected_and_observed", 1)
			}
			continue
		}
		if pt == nil {
			c.Fail("nil-for-valid-x", "GetPointFromX returned nil although x="+xv.Text(16)+" is on the curve", map[string]string{"x": xv.Text(16)})
			continue
		}
		gx, gy := FpToBig(&pt.X), FpToBig(&pt.Y)
		want := yS
		if largest {
			want = yL
		}
		if gx.Cmp(xv) != 0 || gy.Cmp(want) != 0 {
			sig := "wrong-sign-of-y"
			if gy.Cmp(yL) != 0 && gy.Cmp(yS) != 0 {
				sig = "point-off-curve"
			}
			c.Fail(sig, fmt.Sprintf("GetPointFromX(x=%s, largest=%v) = (%s, %s), want y=%s", xv.Text(16), largest, gx.Text(16), gy.Text(16), want.Text(16)), nil)
			continue
		}
		if !(ref.Affine{X: gx, Y: gy}).OnCurve() {
			c.Fail("point-off-curve", "recovered point is not on the curve", nil)
		}
		c.Count("points_recovered", 1)
		// scribble on the returned point: it must be the caller's own copy, and stay so
		pt.X.SetUint64(1)
		pt.Y.SetUint64(2 + uint64(c17pcalls))
		mark := *pt
		c17kept.Keep(c, "GetPointFromX", func() string {
			if *pt != mark {
				return "the point returned by GetPointFromX no longer holds what the caller stored in it"
			}
			return ""
		})
	}
	kind := "oncurve"
	if !ok {
		kind = "offcurve"
	}
	c.Eval("point|"+cls+"|"+kind, xv.Sign() != 0)
}

// xFromY2 solves (a x^2 - 1)/(d x^2 - 1) = v for x, if possible.
func c17xFromY2(v *big.Int) *big.Int {
	den := ref.SubP(ref.CurveA, ref.MulP(v, ref.CurveD))
	if den.Sign() == 0 {
		return nil
	}
	x2 := ref.MulP(ref.SubP(bigOne, v), ref.InvP(den))
	return ref.SqrtP(x2)
}

// c17xFromY solves the curve equation for x given y: x^2 = (1 - y^2)/(a - d*y^2).
func c17xFromY(y *big.Int) *big.Int {
	y2 := ref.MulP(y, y)
	den := ref.SubP(ref.CurveA, ref.MulP(ref.CurveD, y2))
	if den.Sign() == 0 {
		return nil
	}
	return ref.SqrtP(ref.MulP(ref.SubP(bigOne, y2), ref.InvP(den)))
}

// c17thresholdXs returns x-coordinates of curve points whose y lies right next to a value at which the sign selection
// or a comparison could flip: (p-1)/2, 0, p-1, limb boundaries.
func c17thresholdXs() []*big.Int {
	var out []*big.Int
	half := new(big.Int).Rsh(ref.P, 1)
	centres := []*big.Int{half, new(big.Int), new(big.Int).Sub(ref.P, bigOne), new(big.Int).Lsh(bigOne, 64), new(big.Int).Lsh(bigOne, 128), new(big.Int).Lsh(bigOne, 192),
		new(big.Int).Add(half, new(big.Int).Lsh(bigOne, 63)), new(big.Int).Add(half, new(big.Int).Lsh(bigOne, 64)), new(big.Int).Sub(half, new(big.Int).Lsh(bigOne, 64))}
	for _, ctr := range centres {
		for d := int64(-60); d <= 60; d++ {
			y := new(big.Int).Mod(new(big.Int).Add(ctr, big.NewInt(d)), ref.P)
			if x := c17xFromY(y); x != nil {
				out = append(out, x, ref.NegP(x))
			}
		}
	}
	return out
}

func runC17(c *mon.Ctx) {
	// validate the generator's constants
	if new(big.Int).Exp(c17omega, new(big.Int).Lsh(bigOne, 31), ref.P).Cmp(new(big.Int).Sub(ref.P, bigOne)) != 0 {
		c.Note("omega^(2^31) != -1: generator constant wrong")
		return
	}
	both := func(v *big.Int, cls string) {
		c17sqrt(c, v, cls)
		if x := c17xFromY2(v); x != nil {
			c17point(c, x, "y2:"+cls)
		}
	}
	// (block, value) targets
	reps := c.Pick(4, 24)
	k := 0
	for rep := 0; rep < reps; rep++ {
		for blk := 0; blk < 4; blk++ {
			for val0 := 0; val0 < 256; val0 += 32 {
				k++
				if !c.Mine(k) {
					continue
				}
				id := fmt.Sprintf("blocks/rep%d/b%d/v%d", rep, blk, val0)
				blk, val0 := blk, val0
				c.Case(id, func() {
					rng := c.Rand(id)
					for val := val0; val < val0+32; val++ {
						base := uint32(val) << (8 * uint(blk))
						rnd := rng.Uint32() &^ (uint32(0xff) << (8 * uint(blk)))
						ds := map[string]uint32{
							"exact": base, "neg": -base, "mixed": base | rnd, "negmixed": -(base | rnd),
							"double": 2 * (base | rnd), "negdouble": -(2 * (base | rnd)), "odd": base | rnd | 1,
							"evenmixed": (base | rnd) &^ 1,
						}
						for _, name := range sortedKeys(ds) {
							D := ds[name]
							both(c17target(D, rng), fmt.Sprintf("b%d=%02x/%s", blk, val, name))
						}
					}
				})
			}
		}
	}
	if c.Mine(1) {
		c.Case("montgomery-small-and-limb-structured", func() {
			rng := c.Rand("montsmall")
			for k := int64(1); k <= 300; k++ {
				v := new(big.Int).Mod(new(big.Int).Mul(big.NewInt(k), rInvFp), ref.P) // raw limbs {k,0,0,0}
				both(v, "montgomery-small")
				c17point(c, v, "montgomery-small")
				if x := c17xFromY(v); x != nil {
					c17point(c, x, "y-montgomery-small")
				}
			}
			for _, sh := range []uint{64, 128, 192} {
				for k := int64(1); k <= 8; k++ {
					raw := new(big.Int).Lsh(big.NewInt(k), sh) // raw limbs with a single small limb set
					both(new(big.Int).Mod(new(big.Int).Mul(raw, rInvFp), ref.P), "montgomery-single-limb")
				}
			}
			for _, v := range limbNeighbours(ref.P, rng) {
				both(new(big.Int).Mod(v, ref.P), "limb-neighbour-of-p")
			}
			for _, v := range repLambdas {
				both(new(big.Int).Mod(v, ref.P), "limb-structured")
			}
		})
	}
	if c.Mine(0) {
		c.Case("y-adjacent-to-thresholds", func() {
			for _, x := range c17thresholdXs() {
				c17point(c, x, "y-adjacent-to-threshold")
			}
		})
	}
	// roots of unity of every 2-power order, edge values, small integers, random
	nr := c.Pick(160, 1600)
	for b := 0; b < nr; b++ {
		if !c.Mine(b) {
			continue
		}
		id := fmt.Sprintf("misc/%d", b)
		b := b
		c.Case(id, func() {
			rng := c.Rand(id)
			if b%10 == 0 {
				for k := 0; k <= 32; k++ {
					w := new(big.Int).Exp(c17omega, new(big.Int).Lsh(bigOne, uint(32-k)), ref.P) // order 2^k
					both(w, fmt.Sprintf("rootofunity/2^%d", k))
					h := randNonZeroP(rng)
					u := new(big.Int).Exp(h, c17two32, ref.P)
					both(ref.MulP(w, u), fmt.Sprintf("rootofunity*odd/2^%d", k))
				}
				for _, v := range []*big.Int{big.NewInt(0), big.NewInt(1), new(big.Int).Sub(ref.P, bigOne), big.NewInt(2), new(big.Int).Sub(ref.P, big.NewInt(2)), new(big.Int).Rsh(ref.P, 1)} {
					both(v, "edge")
					c17point(c, v, "edge")
				}
			}
			for j := 0; j < 250; j++ {
				switch j % 5 {
				case 0:
					v := big.NewInt(int64(rng.Intn(1 << 20)))
					c17sqrt(c, v, "smallint")
					c17point(c, v, "smallint")
				case 1:
					// two random blocks
					D := rng.Uint32() & (uint32(0xff)<<(8*uint(rng.Intn(4))) | uint32(0xff)<<(8*uint(rng.Intn(4))))
					both(c17target(D, rng), "twoblocks")
				case 2:
					v := randBig(rng, ref.P)
					sq := ref.MulP(v, v)
					c17sqrt(c, sq, "random-square")
				default:
					v := randBig(rng, ref.P)
					c17sqrt(c, v, "random")
					c17point(c, v, "random")
				}
			}
			if b == 0 {
				v := c17target(0x00ab0000, rng)
				c.Sample(map[string]interface{}{"v_hex": v.Text(16), "dlog_seen_by_algorithm": "0x00ab0000", "jacobi": big.Jacobi(v, ref.P)})
			}
		})
	}
	// bulk: value classes that are thin but not targeted by any generator (a mistake that hits one value in 2^16) need
	// sheer numbers; the check per value is the cheap one (nil exactly for non-residues, root^2 == v)
	c.Case("bulk-random", func() {
		rng := c.Rand("bulk-random")
		n := c.Pick(45000, 400000)
		bad := 0
		for i := 0; i < n && bad < 3; i++ {
			v := randBig(rng, ref.P)
			if i%4 == 0 {
				v = big.NewInt(int64(rng.Intn(1 << 24))) // small integers
			}
			x := FpFromBig(v)
			res := fp.SqrtPrecomp(&x)
			jac := big.Jacobi(v, ref.P)
			switch {
			case v.Sign() == 0:
			case jac == -1 && res != nil:
				bad++
				c.Fail("sqrt-of-non-residue", "SqrtPrecomp returned a value for the non-residue "+v.Text(16), map[string]string{"v": v.Text(16), "class": "bulk"})
			case jac == 1 && res == nil:
				bad++
				c.Fail("sqrt-nil-for-residue", "SqrtPrecomp returned nil for the square "+v.Text(16), map[string]string{"v": v.Text(16), "class": "bulk"})
			case jac == 1:
				r := FpToBig(res)
				if ref.MulP(r, r).Cmp(v) != 0 {
					bad++
					c.Fail("sqrt-wrong-root", "SqrtPrecomp: root^2 != v for "+v.Text(16), map[string]string{"v": v.Text(16), "class": "bulk"})
				}
			}
		}
		c.Count("bulk_values_checked", int64(n))
		c.EvalN("sqrt|bulk", int64(n), true)
	})
	c.Case("early-x-again", func() { c17requeryEarly(c) })
	// the N-th call: one child computes more than 2^20 roots of known squares in one process (thorough: 2^21)
	if c.Shard == 0 {
		c.Case("call-count", func() {
			rng := c.Rand("call-count")
			n := c.Pick(1<<20+5000, 1<<21+5000)
			u := randBig(rng, ref.P)
			step := randBig(rng, ref.P)
			for i := 0; i < n; i++ {
				u = ref.AddP(u, step)
				if u.Sign() == 0 {
					continue
				}
				v := ref.MulP(u, u)
				x := FpFromBig(v)
				res := fp.SqrtPrecomp(&x)
				if res == nil {
					c.Fail("sqrt-nil-for-residue", fmt.Sprintf("SqrtPrecomp returned nil for a square (call %d of the case)", i), map[string]string{"v": v.Text(16)})
					break
				}
				r := FpToBig(res)
				if r.Cmp(u) != 0 && ref.AddP(r, u).Sign() != 0 {
					c.Fail("sqrt-wrong-root", fmt.Sprintf("SqrtPrecomp(u^2) is neither u nor -u (call %d of the case: the result depends on how many roots the process has computed)", i), map[string]string{"v": v.Text(16), "root": r.Text(16)})
					break
				}
			}
			c.Count("roots_in_one_process", int64(n))
			c.EvalN("sqrt|call-count", int64(n), true)
		})
	}
	c.Case("retained-results", func() { c17kept.Flush(c) })
}
