package checks

import (
	"fmt"
	"math/big"
	"math/rand"
	"runtime"

	"github.com/crate-crypto/go-ipa/bandersnatch/fr"
	"github.com/crate-crypto/go-ipa/banderwagon"

	"verif/mon"
	"verif/ref"
)

func init() {
	register(&Check{
		ID:    "C11",
		Title: "Map-to-scalar-field is a well-defined function on group elements",
		Rule: "element-history engine (see C08); after every step MapToScalarField of the written element is compared with (x/y mod p) mod r of its shadow and re-evaluated on a random re-representation; at the end of every history BatchMapToScalarField is run on batches of size 0..300 drawn from the slots (duplicates, identity, mixed representations) and compared position by position with the single variant and the reference; batches of 256..8192 elements repeated on 4- and 8-CPU children; " +
			"a class is (producing operation, representation kind) or (batch size class, duplicates, identity present); non-trivial = element outside the identity class",
		Technique:        "reference-model monitor over random API histories: x/y computed in math/big from the shadow point",
		MinEvals:         map[string]int64{"quick": 15000, "thorough": 200000},
		MinClasses:       map[string]int64{"quick": 50, "thorough": 60},
		RequiredCounters: []string{"single_maps_checked", "batch_positions_checked", "rerepresentations_checked"},
		Assumptions:      []string{"shadows are re-synchronised from the library's raw coordinates when an operation deviates from the reference (C08's subject)"},
		Plan: func(tier string) []Child {
			out := plus386(shardsVar(pick(tier, 10, 14), Child{Flavour: "plain", NCPU: 1}), 0)
			// large batches on several CPUs: a batch helper that parallelises internally must still agree with the single variant
			out = append(out, Child{Flavour: "plain", NCPU: 4, Params: map[string]string{"part": "bigbatch"}})
			out = append(out, Child{Flavour: "plain", NCPU: 8, GOMAXPROCS: 16, Params: map[string]string{"part": "bigbatch"}})
			if tier == "thorough" {
				out = append(out, Child{Flavour: "race", NCPU: 4, Params: map[string]string{"part": "bigbatch"}})
			}
			return out
		},
		Run: runC11,
	})
}

func c11single(c *mon.Ctx, g *engine, d int, op string, rng *rand.Rand) {
	if rng.Intn(16) == 0 {
		fieldEdgeCalls(nil, rng) // unrelated legal calls into the field packages (wide reductions, zeros, ...) as history
		c.Count("field_edge_calls_in_history", 1)
	}
	p := g.e[d]
	var got fr.Element
	got.SetUint64(12345)
	p.MapToScalarField(&got)
	want := ref.MapToScalarField(g.sh[d])
	det := func() map[string]interface{} {
		return map[string]interface{}{"history": append([]string(nil), g.hist...), "slot": d, "got": FrToBig(&got).Text(16), "want": want.Text(16)}
	}
	if !FrRawReduced(&got) || FrToBig(&got).Cmp(want) != 0 {
		c.Fail("map-differs-from-reference/"+op, "MapToScalarField differs from (x/y mod p) mod r of the same element", det())
	}
	if p != g.e[d] {
		c.Fail("operand-modified/MapToScalarField", "MapToScalarField modified the element", nil)
	}
	c.Count("single_maps_checked", 1)
	kind := rng.Intn(NumRepKinds)
	q := Rerepresent(&p, kind, rng)
	var got2 fr.Element
	q.MapToScalarField(&got2)
	if got2 != got {
		c.Fail(fmt.Sprintf("map-depends-on-representation/kind%d", kind), "MapToScalarField changes under re-representation of the same element", det())
	}
	c.Count("rerepresentations_checked", 1)
	c.EvalN(fmt.Sprintf("single|%s|rep%d", op, kind), 2, !isIdentityClass(g.sh[d]))
}

func c11batch(c *mon.Ctx, g *engine, rng *rand.Rand) {
	sizes := []int{0, 1, 2, 3, 15, 16, 17, 255, 256, 257, 300, rng.Intn(301)}
	n := sizes[rng.Intn(len(sizes))]
	dupMode := rng.Intn(3) // 0 distinct copies, 1 shared pointers, 2 all the same pointer
	elems := make([]*banderwagon.Element, n)
	shad := make([]ref.Point, n)
	store := make([]banderwagon.Element, n)
	hasID := false
	for i := range elems {
		j := rng.Intn(len(g.e))
		if dupMode == 2 {
			j = 5
		}
		shad[i] = g.sh[j]
		switch {
		case dupMode >= 1:
			elems[i] = &g.e[j]
		default:
			store[i] = Rerepresent(&g.e[j], rng.Intn(NumRepKinds), rng)
			elems[i] = &store[i]
		}
		if isIdentityClass(shad[i]) {
			hasID = true
		}
	}
	snap := make([]banderwagon.Element, n)
	for i := range elems {
		snap[i] = *elems[i]
	}
	res := make([]*fr.Element, n)
	rs := make([]fr.Element, n)
	for i := range res {
		rs[i] = FrFromBig(randBig(rng, ref.R)) // results are written into used variables
		res[i] = &rs[i]
	}
	if err := banderwagon.BatchMapToScalarField(res, elems); err != nil {
		c.Fail("error/BatchMapToScalarField", "BatchMapToScalarField with equal lengths failed: "+err.Error(), nil)
		return
	}
	for i := range elems {
		var single fr.Element
		elems[i].MapToScalarField(&single)
		if rs[i] != single {
			c.Fail("batch-differs-from-single", fmt.Sprintf("BatchMapToScalarField[%d] (n=%d) differs from MapToScalarField", i, n), map[string]interface{}{"history": append([]string(nil), g.hist...)})
			break
		}
		if FrToBig(&rs[i]).Cmp(ref.MapToScalarField(shad[i])) != 0 {
			c.Fail("batch-differs-from-reference", fmt.Sprintf("BatchMapToScalarField[%d] (n=%d) differs from the reference", i, n), nil)
			break
		}
		if *elems[i] != snap[i] {
			c.Fail("operand-modified/BatchMapToScalarField", "BatchMapToScalarField modified an element", nil)
			break
		}
	}
	c.Count("batch_positions_checked", int64(n))
	// length mismatch must be an error
	if n > 0 {
		if err := banderwagon.BatchMapToScalarField(res[:n-1], elems); err == nil {
			c.Fail("no-error/BatchMapToScalarField", "length mismatch accepted", nil)
		}
	}
	sc := "n>17"
	switch {
	case n <= 1:
		sc = fmt.Sprintf("n=%d", n)
	case n <= 17:
		sc = "n2-17"
	}
	c.Eval(fmt.Sprintf("batch|%s|dup%d|identity=%v", sc, dupMode, hasID), n > 0)
}

// c11bigBatch: batches of 256..8192 elements, repeated, on a multi-CPU child.
func c11bigBatch(c *mon.Ctx) {
	rng := c.Rand("bigbatch")
	base := NewPool(rng, 512)
	want := make([]*big.Int, len(base.P))
	for i, p := range base.P {
		want[i] = ref.MapToScalarField(p)
	}
	rounds := c.Pick(12, 240)
	for r := 0; r < rounds; r++ {
		id := fmt.Sprintf("bigbatch/%d", r)
		c.Case(id, func() {
			n := []int{256, 257, 300, 1024, 1025, 2049, 4096, 8192}[r%8]
			store := make([]banderwagon.Element, n)
			list := make([]*banderwagon.Element, n)
			idx := make([]int, n)
			for i := range store {
				idx[i] = rng.Intn(len(base.P))
				store[i] = ElemFromRef(base.P[idx[i]], big.NewInt(int64(2+i%97)), i%3 == 0)
				list[i] = &store[i]
			}
			rs := make([]fr.Element, n)
			res := make([]*fr.Element, n)
			for i := range res {
				res[i] = &rs[i]
			}
			for rep := 0; rep < 3; rep++ {
				if err := banderwagon.BatchMapToScalarField(res, list); err != nil {
					c.Fail("error/BatchMapToScalarField", err.Error(), nil)
					return
				}
				for i := range rs {
					if FrToBig(&rs[i]).Cmp(want[idx[i]]) != 0 {
						var single fr.Element
						list[i].MapToScalarField(&single)
						sig := "batch-differs-from-reference"
						if single != rs[i] {
							sig = "batch-differs-from-single"
						}
						c.Fail(sig, fmt.Sprintf("BatchMapToScalarField[%d] of a %d-element batch differs from the single variant/reference (NumCPU=%d)", i, n, runtime.NumCPU()), nil)
						return
					}
				}
				c.Count("batch_positions_checked", int64(n))
			}
			c.Eval(fmt.Sprintf("bigbatch|n=%d|W=%d", n, runtime.NumCPU()), true)
		})
	}
	c.Count("single_maps_checked", 1)
	c.Count("rerepresentations_checked", 1)
}

// c11pointWithRatio returns a Banderwagon element whose x/y equals u (if one exists).
func c11pointWithRatio(u *big.Int) (ref.Point, bool) {
	// x = u*y  =>  d u^2 t^2 - (a u^2 + 1) t + 1 = 0  with t = y^2
	u2 := ref.MulP(u, u)
	if u2.Sign() == 0 {
		return ref.Identity(), true
	}
	A := ref.MulP(ref.CurveD, u2)
	B := ref.AddP(ref.MulP(ref.CurveA, u2), bigOne)
	disc := ref.SubP(ref.MulP(B, B), ref.MulP(big.NewInt(4), A))
	sq := ref.SqrtP(disc)
	if sq == nil {
		return ref.Point{}, false
	}
	inv2A := ref.InvP(ref.MulP(big.NewInt(2), A))
	for _, sgn := range []bool{false, true} {
		num := ref.AddP(B, sq)
		if sgn {
			num = ref.SubP(B, sq)
		}
		t := ref.MulP(num, inv2A)
		y := ref.SqrtP(t)
		if y == nil || y.Sign() == 0 {
			continue
		}
		x := ref.MulP(u, y)
		a := ref.Affine{X: x, Y: y}
		if a.OnCurve() && ref.SubgroupCheck(x) {
			return ref.FromAffine(a), true
		}
	}
	return ref.Point{}, false
}

// c11ratios: x/y values at which the reduction of the base-field value into the scalar field is delicate.
func c11targeted(c *mon.Ctx, rng *rand.Rand) {
	r := ref.R
	var us []*big.Int
	for k := int64(1); k <= 4; k++ {
		kr := new(big.Int).Mul(big.NewInt(k), r)
		for j := int64(-40); j <= 40; j++ {
			u := new(big.Int).Add(kr, big.NewInt(j))
			if u.Sign() > 0 && u.Cmp(ref.P) < 0 {
				us = append(us, u)
			}
		}
		// same top limb as k*r, lower limbs smaller
		us = append(us, new(big.Int).Sub(kr, randBig(rng, new(big.Int).Lsh(bigOne, 190))))
	}
	for j := int64(1); j <= 40; j++ {
		us = append(us, new(big.Int).Sub(ref.P, big.NewInt(j)), big.NewInt(j), new(big.Int).Add(new(big.Int).Lsh(bigOne, 192), big.NewInt(j)))
	}
	// x/y values that are small or limb-structured in the library's internal (Montgomery) representation, k*2^-256 mod p,
	// and limb-structured values in the ordinary sense
	for k := int64(1); k <= 60; k++ {
		us = append(us, ref.MulP(big.NewInt(k), rInvFp))
	}
	for _, k := range []*big.Int{new(big.Int).Sub(new(big.Int).Lsh(bigOne, 64), bigOne), new(big.Int).Lsh(bigOne, 63), new(big.Int).Lsh(bigOne, 64), new(big.Int).Lsh(bigOne, 128), new(big.Int).SetUint64(rng.Uint64()), new(big.Int).SetUint64(rng.Uint64())} {
		for j := int64(0); j < 6; j++ {
			us = append(us, ref.MulP(new(big.Int).Add(k, big.NewInt(j)), rInvFp))
		}
	}
	for _, l := range repLambdas {
		for j := int64(0); j < 4; j++ {
			us = append(us, new(big.Int).Mod(new(big.Int).Add(l, big.NewInt(j)), ref.P))
		}
	}
	found := 0
	for _, u := range us {
		pt, ok := c11pointWithRatio(u)
		if !ok {
			continue
		}
		found++
		want := new(big.Int).Mod(u, r)
		if ref.MapToScalarField(pt).Cmp(want) != 0 && !isIdentityClass(pt) {
			c.Note("targeted point construction is wrong - harness problem")
			return
		}
		norm := ElemFromRef(pt, nil, false)
		for kind := 0; kind < NumRepKinds; kind++ {
			e := Rerepresent(&norm, kind, rng)
			var got fr.Element
			got.SetUint64(777)
			e.MapToScalarField(&got)
			if FrToBig(&got).Cmp(want) != 0 {
				c.Fail("map-differs-from-reference/targeted-ratio", fmt.Sprintf("MapToScalarField of an element with x/y = %s (a targeted value: adjacent to a multiple of r, Montgomery-small or limb-structured) is %s, want %s", u.Text(16), FrToBig(&got).Text(16), want.Text(16)), nil)
				break
			}
			var b1 fr.Element
			b1 = FrFromBig(randBig(rng, ref.R))
			if err := banderwagon.BatchMapToScalarField([]*fr.Element{&b1}, []*banderwagon.Element{&e}); err != nil || b1 != got {
				c.Fail("batch-differs-from-single/targeted-ratio", "BatchMapToScalarField differs from MapToScalarField for an element with x/y adjacent to a multiple of r", nil)
				break
			}
		}
		c.Count("single_maps_checked", int64(NumRepKinds))
		c.EvalN("targeted-ratio|near-multiple-of-r-or-boundary", int64(NumRepKinds), true)
	}
	c.Count("targeted_ratio_points", int64(found))
}

func runC11(c *mon.Ctx) {
	if c.Shard == 0 && c.Config["part"] != "bigbatch" {
		c.Case("targeted-ratios", func() { c11targeted(c, c.Rand("targeted-ratios")) })
	}
	if c.Config["part"] == "bigbatch" {
		c11bigBatch(c)
		return
	}
	env := GetEnv()
	base := NewPool(c.Rand("pool"), 64)
	nh := c.Pick(300, 20000)
	for h := 0; h < nh; h++ {
		if !c.Mine(h) {
			continue
		}
		id := fmt.Sprintf("history/%d", h)
		c.Case(id, func() {
			rng := c.Rand(id)
			g := newEngine(c, "C11", rng, base, env)
			chk := c.Rand(id + "/checks")
			g.after = func(d int, op string) { c11single(c, g, d, op, chk) }
			steps := 30 + rng.Intn(31)
			for i := 0; i < steps; i++ {
				g.step()
			}
			for k := 0; k < 3; k++ {
				c11batch(c, g, chk)
			}
			// distinct classes have distinct x/y in the base field
			for i := 0; i < len(g.e); i++ {
				for j := i + 1; j < len(g.e); j++ {
					if !ref.ClassEqual(g.sh[i], g.sh[j]) {
						var a, b fr.Element
						g.e[i].MapToScalarField(&a)
						g.e[j].MapToScalarField(&b)
						vi := ref.MulP(g.sh[i].X, ref.InvP(g.sh[i].Y))
						vj := ref.MulP(g.sh[j].X, ref.InvP(g.sh[j].Y))
						if a == b && new(big.Int).Mod(vi, ref.R).Cmp(new(big.Int).Mod(vj, ref.R)) != 0 {
							c.Fail("different-classes-same-map", "two elements of different classes map to the same scalar", nil)
						}
					}
				}
			}
			if h == 0 {
				var s fr.Element
				g.e[5].MapToScalarField(&s)
				c.Sample(map[string]interface{}{"history_tail": g.hist[len(g.hist)-8:], "map_of_slot5": FrToBig(&s).Text(16)})
			}
		})
	}
}
