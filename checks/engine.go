package checks

import (
	"fmt"
	"math/big"
	"math/rand"
	"strings"

	"github.com/crate-crypto/go-ipa/bandersnatch"
	"github.com/crate-crypto/go-ipa/bandersnatch/fr"
	"github.com/crate-crypto/go-ipa/banderwagon"
	"github.com/crate-crypto/go-ipa/common"
	"github.com/crate-crypto/go-ipa/ipa"

	"verif/mon"
	"verif/ref"
)

// engine is the element-history engine shared by C07, C08, C11 and C19: it
// runs random programs of group operations on a pool of library elements and
// keeps, for every slot, a shadow point updated by the same operation in the
// reference implementation.
type engine struct {
	c    *mon.Ctx
	mode string // C07 | C08 | C11 | C19
	rng  *rand.Rand
	e    []banderwagon.Element
	sh   []ref.Point
	base *Pool
	env  *Env
	// after is called after every step with the written slot and the op name
	after func(d int, op string)
	hist  []string
	// useCustom: also run MSMs over a harness-chosen basis with repeated elements (costs one more table construction)
	useCustom bool
	// snapshots of the package-level constants
	id0, gen0 banderwagon.Element
}

const engineSlots = 14

func newEngine(c *mon.Ctx, mode string, rng *rand.Rand, base *Pool, env *Env) *engine {
	g := &engine{c: c, mode: mode, rng: rng, base: base, env: env, useCustom: (mode == "C07" || mode == "C08") && c.Shard%3 == 0}
	g.id0, g.gen0 = banderwagon.Identity, banderwagon.Generator
	g.e = make([]banderwagon.Element, engineSlots)
	g.sh = make([]ref.Point, engineSlots)
	for i := range g.e {
		g.fresh(i)
	}
	// fixed special slots
	g.set(0, banderwagon.Identity, ref.Identity())
	g.set(1, ElemFromRef(ref.Identity(), nil, true), ref.Identity()) // (0,-1): the other member of the identity class
	g.set(2, banderwagon.Generator, ref.Generator())
	k := rng.Intn(256)
	g.set(3, env.Conf.SRS[k], env.Ref.SRS[k])
	// an element one of whose affine coordinates is adjacent to a comparison threshold ((p-1)/2, 0, p-1, limb boundaries)
	if tp := thresholdPoints(); len(tp) > 0 {
		pt := tp[rng.Intn(len(tp))]
		g.set(4, ElemFromRef(pt, nil, rng.Intn(2) == 0), pt)
		pt2 := tp[rng.Intn(len(tp))]
		g.set(5, ElemFromRef(pt2, randNonZeroP(rng), rng.Intn(2) == 0), pt2)
	}
	// an element whose y^2 has a structured discrete logarithm in the 2^32 subgroup (low blocks zero, single blocks set)
	if sp := structuredDlogPoints(); len(sp) > 0 {
		pt := sp[rng.Intn(len(sp))]
		g.set(6, ElemFromRef(pt, randNonZeroP(rng), rng.Intn(2) == 0), pt)
	}
	return g
}

var structuredPts []ref.Point

func structuredDlogPoints() []ref.Point {
	if structuredPts == nil {
		rng := rand.New(rand.NewSource(20240601))
		for i := 0; i < 460 && len(structuredPts) < 90; i++ {
			var D uint32
			if i < 60 {
				// a single bit of the discrete logarithm set (y^2 in the subgroup of order 2^(32-k) exactly), twice each;
				// D = 2^31 is the element whose odd-part power is -1
				D = uint32(1) << uint(31-i%31)
			} else {
				switch i % 4 {
				case 0:
					D = uint32(rng.Intn(256)) << (8 * uint(2+rng.Intn(2))) // low 16 bits zero
				case 1:
					D = (rng.Uint32() >> 16) << 16
				case 2:
					D = uint32(rng.Intn(256)) << (8 * uint(rng.Intn(4)))
				default:
					D = uint32(rng.Intn(128)) << 25
				}
			}
			x := c17xFromY2(c17target(D&^1, rng))
			if x == nil || !ref.SubgroupCheck(x) {
				continue
			}
			if yL, _, ok := ref.YFromX(x); ok {
				structuredPts = append(structuredPts, ref.FromAffine(ref.Affine{X: x, Y: yL}))
			}
		}
	}
	return structuredPts
}

// customBasis is a second precomputed-table engine over a basis chosen by the harness: reference multiples with the
// same element in several slots and the identity in one, so that partial sums cancel inside one MSM.
type customBasis struct {
	msm banderwagon.MSMPrecomp
	sh  []ref.Point
}

var custom *customBasis

func getCustomBasis(base *Pool) *customBasis {
	if custom == nil {
		pts := make([]banderwagon.Element, 256)
		sh := make([]ref.Point, 256)
		for i := range pts {
			j := i % len(base.P)
			if i%7 == 1 {
				j = (i - 1) % len(base.P) // same element as the previous slot
			}
			sh[i] = base.P[j]
			pts[i] = ElemFromRef(sh[i], nil, false)
		}
		sh[9] = ref.Identity()
		pts[9] = banderwagon.Identity
		m, err := banderwagon.NewPrecompMSM(pts)
		if err != nil {
			return nil
		}
		custom = &customBasis{msm: m, sh: sh}
	}
	return custom
}

func (g *engine) set(i int, e banderwagon.Element, s ref.Point) { g.e[i], g.sh[i] = e, s }

// fresh puts a reference multiple in a random representation into slot i.
func (g *engine) fresh(i int) {
	j := g.rng.Intn(len(g.base.P))
	var l *big.Int
	if g.rng.Intn(2) == 0 {
		l = randNonZeroP(g.rng)
	}
	g.set(i, ElemFromRef(g.base.P[j], l, g.rng.Intn(3) == 0), g.base.P[j])
}

func isIdentityClass(p ref.Point) bool { return p.X.Sign() == 0 }

func (g *engine) log(s string) {
	g.hist = append(g.hist, s)
	if len(g.hist) > 70 {
		g.hist = g.hist[len(g.hist)-70:]
	}
}

// settle compares the library's result in slot d with the expected shadow.
// In C08 mode a deviation is a violation; in the other modes the shadow is
// re-synchronised from what the library actually produced (the group law is
// C08's subject) so that the encoding properties are checked on the element
// as it is.
func (g *engine) settle(d int, want ref.Point, op string, operandsIdentity bool) {
	got, ok := ElemToRef(&g.e[d])
	valid := ok && got.Affine().OnCurve()
	match := valid && ref.ClassEqual(got, want) && isIdentityClass(got) == isIdentityClass(want)
	if g.mode == "C08" {
		cls := op
		if operandsIdentity {
			cls += "/identity-operand"
		}
		if !match {
			sig := "wrong-result/" + cls
			msg := fmt.Sprintf("%s produced an element outside the reference's class", op)
			if !valid {
				X, Y, Z := g.e[d].VerifCoords()
				msg = fmt.Sprintf("%s produced an invalid point (X=%s Y=%s Z=%s)", op, FpToBig(&X).Text(16), FpToBig(&Y).Text(16), FpToBig(&Z).Text(16))
				sig = "invalid-result/" + cls
			}
			g.c.Fail(sig, msg, map[string]interface{}{"history": append([]string(nil), g.hist...)})
		}
		g.c.Eval("op|"+cls, true)
	}
	if match {
		g.sh[d] = want
		return
	}
	if valid {
		g.sh[d] = got
		g.c.Count("resynced_after_deviation", 1)
		return
	}
	g.fresh(d)
	g.c.Count("reset_after_invalid_result", 1)
}

// useRet treats the pointer a method returns the way a caller does who keeps it as an accumulator
// (acc := new(Element).Op(...); acc.Add(acc, x)): its value must be the result, and writing through it must touch
// nothing but the receiver.
func (g *engine) useRet(d int, ret *banderwagon.Element, op string) {
	if ret == &g.e[d] {
		return
	}
	if ret == nil {
		g.c.Fail("nil-return/"+op, op+" returned a nil element pointer", nil)
		return
	}
	if *ret != g.e[d] {
		g.c.Fail("returned-pointer-differs-from-receiver/"+op, op+" returned a pointer to an element other than its result", map[string]interface{}{"history": append([]string(nil), g.hist...)})
	}
	*ret = g.e[(d+3)%len(g.e)] // the caller goes on accumulating into what it was given
	g.c.Count("returned_pointers_other_than_receiver_written", 1)
}

// constants checks the package-level elements after a step.
func (g *engine) constants(op string) {
	if banderwagon.Identity != g.id0 || banderwagon.Generator != g.gen0 {
		g.c.Fail("package-constant-modified/"+op, "banderwagon.Identity or banderwagon.Generator changed during "+op+" (or when the caller wrote through the pointer it returned)", map[string]interface{}{"history": append([]string(nil), g.hist...)})
		banderwagon.Identity, banderwagon.Generator = g.id0, g.gen0
	}
}

func (g *engine) pickScalar() *big.Int {
	if g.rng.Intn(3) == 0 {
		e := edgeScalars()
		return e[g.rng.Intn(len(e))]
	}
	return randScalar(g.rng)
}

// roStep runs one group operation whose non-receiver operands (points and scalar) live on read-only memory pages, and
// compares the result bitwise with the same operation on ordinary copies. An operation that writes to an operand it
// only reads faults; the fault is reported as a violation.
func (g *engine) roStep() {
	rng := g.rng
	a, b := rng.Intn(len(g.e)), rng.Intn(len(g.e))
	pa, pb := roElem(&g.e[a]), roElem(&g.e[b])
	sv := FrFromBig(g.pickScalar())
	ps := roFr(&sv)
	if pa == nil || pb == nil || ps == nil {
		return
	}
	ca, cb, cs := g.e[a], g.e[b], sv
	ops := []struct {
		name string
		f    func(r *banderwagon.Element, x, y *banderwagon.Element, s *fr.Element)
	}{
		{"Add", func(r, x, y *banderwagon.Element, s *fr.Element) { r.Add(x, y) }},
		{"Sub", func(r, x, y *banderwagon.Element, s *fr.Element) { r.Sub(x, y) }},
		{"Double", func(r, x, y *banderwagon.Element, s *fr.Element) { r.Double(x) }},
		{"Neg", func(r, x, y *banderwagon.Element, s *fr.Element) { r.Neg(x) }},
		{"ScalarMul", func(r, x, y *banderwagon.Element, s *fr.Element) { r.ScalarMul(x, s) }},
		{"Set", func(r, x, y *banderwagon.Element, s *fr.Element) { r.Set(x) }},
		{"Equal", func(r, x, y *banderwagon.Element, s *fr.Element) {
			if x.Equal(y) {
				r.SetIdentity()
			} else {
				*r = banderwagon.Generator
			}
		}},
		{"Bytes/MapToScalarField", func(r, x, y *banderwagon.Element, s *fr.Element) {
			by := x.Bytes()
			var m fr.Element
			y.MapToScalarField(&m)
			r.SetIdentity()
			if by[0]&1 == 1 || m.IsZero() {
				*r = banderwagon.Generator
			}
		}},
	}
	op := ops[rng.Intn(len(ops))]
	var viaRO, plain banderwagon.Element
	faulted, msg := callRO(func() { op.f(&viaRO, pa, pb, ps) })
	op.f(&plain, &ca, &cb, &cs)
	switch {
	case faulted && (strings.Contains(msg, "fault") || strings.Contains(msg, "memory address")):
		g.c.Fail("operand-written/"+op.name, fmt.Sprintf("%s wrote to an operand it should only read (the operands were on read-only pages: %s)", op.name, msg), nil)
	case faulted:
		g.c.Fail("panic/"+op.name, op.name+" panicked: "+msg, nil)
	case viaRO != plain:
		g.c.Fail("result-depends-on-operand-location/"+op.name, op.name+" gives a different result when its operands are on read-only pages", nil)
	}
	g.c.Count("operations_with_read_only_operands", 1)
}

var engineROBudget = 400

// step executes one random operation.
func (g *engine) step() {
	rng := g.rng
	if engineROBudget > 0 && rng.Intn(24) == 0 {
		engineROBudget--
		g.roStep()
	}
	n := len(g.e)
	d, a, b := rng.Intn(n), rng.Intn(n), rng.Intn(n)
	if d < 2 && rng.Intn(4) != 0 {
		d = 2 + rng.Intn(n-2) // keep the identity representatives most of the time
	}
	if rng.Intn(5) == 0 {
		d = a // receiver aliases an operand
	}
	if rng.Intn(12) == 0 {
		b = a
	}
	ea, eb := g.e[a], g.e[b]
	sa, sb := g.sh[a], g.sh[b]
	idop := isIdentityClass(sa) || isIdentityClass(sb)
	op := ""
	switch k := rng.Intn(100); {
	case k < 22:
		op = "Add"
		g.log(fmt.Sprintf("e%d.Add(e%d,e%d)", d, a, b))
		g.useRet(d, g.e[d].Add(&g.e[a], &g.e[b]), op)
		g.settle(d, ref.Add(sa, sb), op, idop)
	case k < 32:
		op = "Sub"
		g.log(fmt.Sprintf("e%d.Sub(e%d,e%d)", d, a, b))
		g.useRet(d, g.e[d].Sub(&g.e[a], &g.e[b]), op)
		g.settle(d, ref.Sub(sa, sb), op, idop)
	case k < 40:
		op = "Double"
		g.log(fmt.Sprintf("e%d.Double(e%d)", d, a))
		g.useRet(d, g.e[d].Double(&g.e[a]), op)
		g.settle(d, ref.Double(sa), op, isIdentityClass(sa))
		b = a
	case k < 46:
		op = "Neg"
		g.log(fmt.Sprintf("e%d.Neg(e%d)", d, a))
		g.useRet(d, g.e[d].Neg(&g.e[a]), op)
		g.settle(d, ref.Neg(sa), op, isIdentityClass(sa))
		b = a
	case k < 58:
		op = "ScalarMul"
		s := g.pickScalar()
		g.log(fmt.Sprintf("e%d.ScalarMul(e%d,%s)", d, a, s.Text(16)))
		fs := FrFromBig(s)
		keep := fs
		g.useRet(d, g.e[d].ScalarMul(&g.e[a], &fs), op)
		if fs != keep {
			g.c.Fail("operand-modified/ScalarMul", "ScalarMul changed its scalar", nil)
		}
		g.settle(d, ref.Mul(sa, s), op, isIdentityClass(sa))
		b = a
	case k < 64:
		op = "AddMixed"
		af := sb.Affine()
		flip := rng.Intn(3) == 0
		x, y := af.X, af.Y
		if flip {
			x, y = ref.NegP(x), ref.NegP(y)
		}
		g.log(fmt.Sprintf("e%d.AddMixed(e%d, affine(e%d) flip=%v)", d, a, b, flip))
		g.useRet(d, g.e[d].AddMixed(&g.e[a], bandersnatch.PointAffine{X: FpFromBig(x), Y: FpFromBig(y)}), op)
		g.settle(d, ref.Add(sa, sb), op, idop)
		b = a
	case k < 68:
		op = "Set"
		g.log(fmt.Sprintf("e%d.Set(e%d)", d, a))
		g.useRet(d, g.e[d].Set(&g.e[a]), op)
		g.settle(d, sa, op, isIdentityClass(sa))
		b = a
	case k < 70:
		op = "SetIdentity"
		g.log(fmt.Sprintf("e%d.SetIdentity()", d))
		g.useRet(d, g.e[d].SetIdentity(), op)
		g.settle(d, ref.Identity(), op, false)
		a, b = d, d
	case k < 78:
		op = "MultiExp"
		m := rng.Intn(7) // also the empty sum
		idx := make([]int, m)
		pts := make([]banderwagon.Element, m)
		scs := make([]fr.Element, m)
		rp := make([]ref.Point, m)
		rs := make([]*big.Int, m)
		mont := rng.Intn(2) == 0
		for i := range idx {
			idx[i] = rng.Intn(n)
			pts[i] = g.e[idx[i]]
			rp[i] = g.sh[idx[i]]
			rs[i] = g.pickScalar()
			scs[i] = FrFromBig(rs[i])
			if !mont {
				scs[i] = fr.Element(limbs(rs[i]))
			}
			if isIdentityClass(rp[i]) {
				idop = true
			}
		}
		cfg := banderwagon.MultiExpConfig{NbTasks: []int{0, 1, 2, 16, 64}[rng.Intn(5)], ScalarsMont: mont}
		g.log(fmt.Sprintf("e%d.MultiExp(slots %v, mont=%v, tasks=%d)", d, idx, mont, cfg.NbTasks))
		var ret *banderwagon.Element
		var err error
		if mont && rng.Intn(3) == 0 {
			// the wrapper the prover and verifier use
			var r banderwagon.Element
			r, err = ipa.MultiScalar(pts, scs)
			g.e[d], ret = r, &g.e[d]
		} else {
			ret, err = g.e[d].MultiExp(pts, scs, cfg)
		}
		if err != nil {
			g.c.Fail("error/MultiExp", "MultiExp with equal lengths returned "+err.Error(), nil)
		} else {
			g.useRet(d, ret, op)
		}
		g.settle(d, ref.MSM(rp, rs), op, idop)
		a, b = d, d
	case k < 80 && g.useCustom:
		op = "CustomBasisMSM"
		cb := getCustomBasis(g.base)
		if cb == nil {
			break
		}
		v := make([]fr.Element, 256)
		var rp []ref.Point
		var rs []*big.Int
		s1 := g.pickScalar()
		pos := 7 * rng.Intn(36) // slots pos and pos+1 hold the same element
		switch rng.Intn(3) {
		case 0: // (s, -s): the two terms cancel, the accumulator passes through the identity
			v[pos], v[pos+1] = FrFromBig(s1), FrFromBig(ref.NegR(s1))
			rp, rs = append(rp, cb.sh[pos], cb.sh[pos+1]), append(rs, s1, ref.NegR(s1))
		case 1:
			v[pos], v[pos+1] = FrFromBig(s1), FrFromBig(s1)
			rp, rs = append(rp, cb.sh[pos], cb.sh[pos+1]), append(rs, s1, s1)
		default:
			v[9] = FrFromBig(s1) // identity slot
			rp, rs = append(rp, cb.sh[9]), append(rs, s1)
		}
		for e := 0; e < rng.Intn(3); e++ {
			p2 := 20 + rng.Intn(230)
			if v[p2].IsZero() {
				t := g.pickScalar()
				v[p2] = FrFromBig(t)
				rp, rs = append(rp, cb.sh[p2]), append(rs, t)
			}
		}
		g.log(fmt.Sprintf("e%d = customBasis.MSM(%d terms around slot %d)", d, len(rs), pos))
		g.e[d] = cb.msm.MSM(v)
		g.settle(d, ref.MSM(rp, rs), op, false)
		a, b = d, d
	case k < 84:
		op = "Commit"
		v := make([]fr.Element, 256)
		var rp []ref.Point
		var rs []*big.Int
		m := 1 + rng.Intn(3)
		for i := 0; i < m; i++ {
			pos := rng.Intn(256)
			if rng.Intn(3) == 0 {
				pos = rng.Intn(5) // 16-bit window tables
			}
			s := g.pickScalar()
			if !v[pos].IsZero() {
				continue
			}
			v[pos] = FrFromBig(s)
			rp = append(rp, g.env.Ref.SRS[pos])
			rs = append(rs, s)
		}
		g.log(fmt.Sprintf("e%d = Commit(sparse %d)", d, len(rs)))
		g.e[d] = g.env.Conf.Commit(v)
		g.settle(d, ref.MSM(rp, rs), op, false)
		a, b = d, d
	case k < 90:
		op = "SetBytes(Bytes)"
		g.log(fmt.Sprintf("e%d.SetBytes(e%d.Bytes())", d, a))
		by := g.e[a].Bytes()
		var err error
		if rng.Intn(2) == 0 {
			// the stream decoder, fed in two pieces
			var p *banderwagon.Element
			if p, err = common.ReadPoint(&nestReader{data: by[:], chunk: 1 + rng.Intn(31), at: -1}); err == nil {
				g.e[d] = *p
			}
		} else {
			err = g.e[d].SetBytes(by[:])
		}
		if err != nil {
			g.c.Fail("decode-own-encoding", "SetBytes(P.Bytes()) failed: "+err.Error(), map[string]interface{}{"history": append([]string(nil), g.hist...)})
			g.e[d] = ea
		}
		g.settle(d, sa, op, isIdentityClass(sa))
		b = a
	case k < 92 && g.mode != "C08":
		op = "BatchNormalize"
		m := 1 + rng.Intn(5)
		idx := make([]int, m)
		ptrs := make([]*banderwagon.Element, m)
		for i := range idx {
			idx[i] = rng.Intn(n)
			ptrs[i] = &g.e[idx[i]]
		}
		g.log(fmt.Sprintf("BatchNormalize(slots %v)", idx))
		if err := banderwagon.BatchNormalize(ptrs); err != nil {
			g.c.Count("batchnormalize_errors_on_valid_elements", 1)
		}
		for _, j := range idx {
			g.settle(j, g.sh[j], op, isIdentityClass(g.sh[j]))
		}
		d, a, b = idx[0], idx[0], idx[0]
	case k < 94:
		op = "Normalize"
		g.log(fmt.Sprintf("e%d.Normalize()", a))
		d = a
		if err := g.e[d].Normalize(); err != nil {
			g.c.Fail("error/Normalize", "Normalize of a valid element failed", nil)
		}
		g.settle(d, sa, op, isIdentityClass(sa))
		b = a
	default:
		op = "Rerepresent"
		kind := rng.Intn(NumRepKinds)
		g.log(fmt.Sprintf("e%d = rerepresent(e%d, kind %d)", d, a, kind))
		g.e[d] = Rerepresent(&g.e[a], kind, rng)
		g.sh[d] = sa
		b = a
	}
	// operands that are not the receiver must be bitwise unchanged
	if g.mode == "C08" {
		if a != d && g.e[a] != ea {
			g.c.Fail("operand-modified/"+op, op+" modified a non-receiver operand", map[string]interface{}{"history": append([]string(nil), g.hist...)})
			g.e[a] = ea
		}
		if b != d && b != a && g.e[b] != eb {
			g.c.Fail("operand-modified/"+op, op+" modified a non-receiver operand", map[string]interface{}{"history": append([]string(nil), g.hist...)})
			g.e[b] = eb
		}
	}
	g.constants(op)
	if g.after != nil {
		g.after(d, op)
	}
}

var thresholdPts []ref.Point

// thresholdPoints returns Banderwagon elements whose y (or, for the other class member, -y) lies next to a threshold.
func thresholdPoints() []ref.Point {
	if thresholdPts == nil {
		for _, x := range c17thresholdXs() {
			if yL, yS, ok := ref.YFromX(x); ok && ref.SubgroupCheck(x) {
				thresholdPts = append(thresholdPts, ref.FromAffine(ref.Affine{X: x, Y: yL}), ref.FromAffine(ref.Affine{X: x, Y: yS}))
			}
		}
	}
	return thresholdPts
}
