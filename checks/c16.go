package checks

import (
	"bytes"
	"fmt"
	"io"
	"math/big"
	"math/rand"
	"strings"

	"github.com/crate-crypto/go-ipa/bandersnatch/fp"
	"github.com/crate-crypto/go-ipa/bandersnatch/fr"
	"github.com/crate-crypto/go-ipa/banderwagon"
	"github.com/crate-crypto/go-ipa/common"

	"verif/mon"
	"verif/ref"
)

func init() {
	register(&Check{
		ID:    "C16",
		Title: "Scalar encodings round-trip, reduce or reject exactly, and leave input intact",
		Rule: "byte strings of every length 0..64 whose integer value is one of {0, 1, r-2..r+2, 2r, 2^255, 2^256-1, p-1, p, all 0xff, random, random with zero padding at either end}, placed big- or little-endian, through every decoder; " +
			"all scalars of a seeded edge+random set through every encoder; a class is (decoder, length class, value class); non-trivial = non-empty string with non-zero value",
		Technique:        "reference-model monitor (math/big) on every decode/encode + bitwise snapshot of the caller's buffer around every call",
		MinEvals:         map[string]int64{"quick": 150000, "thorough": 2000000},
		MinClasses:       map[string]int64{"quick": 100, "thorough": 100},
		RequiredCounters: []string{"canonical_rejections", "canonical_acceptances", "buffer_snapshots"},
		Assumptions:      []string{"math/big is the oracle for integer values of byte strings"},
		Plan: func(tier string) []Child {
			return plus386(shardsVar(pick(tier, 4, 12), Child{Flavour: "plain", NCPU: 1}), 0)
		},
		Run: runC16,
	})
}

type errReader struct {
	data []byte
	pos  int
	step int
}

func (r *errReader) Read(p []byte) (int, error) {
	if r.pos >= len(r.data) {
		return 0, fmt.Errorf("EOF-like")
	}
	n := r.step
	if n > len(p) {
		n = len(p)
	}
	if n > len(r.data)-r.pos {
		n = len(r.data) - r.pos
	}
	copy(p, r.data[r.pos:r.pos+n])
	r.pos += n
	return n, nil
}

func c16strings(rng *rand.Rand, L int) (out [][]byte, classes []string) {
	add := func(b []byte, cl string) {
		out = append(out, b)
		classes = append(classes, cl)
	}
	r := ref.R
	vals := map[string]*big.Int{
		"0": big.NewInt(0), "1": big.NewInt(1),
		"r-2": new(big.Int).Sub(r, big.NewInt(2)), "r-1": new(big.Int).Sub(r, bigOne), "r": r,
		"r+1": new(big.Int).Add(r, bigOne), "r+2": new(big.Int).Add(r, big.NewInt(2)), "2r": new(big.Int).Lsh(r, 1),
		"2^255": new(big.Int).Lsh(bigOne, 255), "2^256-1": new(big.Int).Sub(two256, bigOne),
		"p-1": new(big.Int).Sub(ref.P, bigOne), "p": ref.P,
		"r*k": new(big.Int).Mul(r, big.NewInt(int64(2+rng.Intn(5)))),
	}
	for _, name := range sortedKeys(vals) {
		v := vals[name]
		be := v.Bytes()
		if len(be) > L {
			continue
		}
		// big-endian placement, left padded; little-endian placement, right padded
		b := make([]byte, L)
		copy(b[L-len(be):], be)
		add(b, "be:"+name)
		l := make([]byte, L)
		for i := range be {
			l[i] = be[len(be)-1-i]
		}
		add(l, "le:"+name)
	}
	if L >= 32 {
		mods := map[string]*big.Int{"r": r, "p": ref.P, "2r": new(big.Int).Lsh(r, 1)}
		for _, name := range sortedKeys(mods) {
			m := mods[name]
			ns := limbNeighbours(m, rng)
			for k := 0; k < 6; k++ {
				v := ns[rng.Intn(len(ns))]
				be := v.Bytes()
				b := make([]byte, L)
				copy(b[L-len(be):], be)
				add(b, "be:limb-neighbour-of-"+name)
				l := make([]byte, L)
				for i := range be {
					l[i] = be[len(be)-1-i]
				}
				add(l, "le:limb-neighbour-of-"+name)
			}
		}
	}
	if L > 32 {
		// a canonical 32-byte value followed (LE) / preceded (BE) by zeros and ONE non-zero byte at a chosen distance:
		// the byte next to the value is zero, a farther one is not (and the nearest one alone, for contrast)
		low := randBig(rng, r).Bytes()
		for k := 0; k < 3; k++ {
			j := 32 + rng.Intn(L-32) // position of the non-zero byte in little-endian order
			if k == 0 {
				j = L - 1
			}
			if k == 1 {
				j = 32
			}
			le := make([]byte, L)
			for i := range low {
				le[i] = low[len(low)-1-i]
			}
			le[j] = byte(1 + rng.Intn(255))
			add(le, "le:canonical-low-part+one-high-byte")
			be := make([]byte, L)
			for i := range le {
				be[L-1-i] = le[i]
			}
			add(be, "be:canonical-low-part+one-high-byte")
		}
	}
	ff := bytes.Repeat([]byte{0xff}, L)
	add(ff, "allff")
	for k := 0; k < 6; k++ {
		b := make([]byte, L)
		rng.Read(b)
		add(b, "random")
		if L > 4 {
			b2 := append([]byte(nil), b...)
			for i := 0; i < 1+rng.Intn(L/2); i++ {
				b2[i] = 0
			}
			add(b2, "random-leading-zeros")
			b3 := append([]byte(nil), b...)
			for i := 0; i < 1+rng.Intn(L/2); i++ {
				b3[L-1-i] = 0
			}
			add(b3, "random-trailing-zeros")
		}
		if L == 32 {
			// values just around r in the top byte
			b4 := append([]byte(nil), b...)
			b4[0] = 0x1c + byte(rng.Intn(3))
			add(b4, "random-near-r-be")
			b5 := append([]byte(nil), b...)
			b5[31] = 0x1c + byte(rng.Intn(3))
			add(b5, "random-near-r-le")
		}
	}
	return
}

func lenClass(L int) string {
	switch {
	case L == 0:
		return "len0"
	case L < 31:
		return "len1-30"
	case L == 31 || L == 32 || L == 33:
		return fmt.Sprintf("len%d", L)
	case L < 64:
		return "len34-63"
	case L == 64:
		return "len64"
	default:
		return "len65+"
	}
}

func runC16(c *mon.Ctx) {
	reps := c.Pick(14, 600)
	k := 0
	for rep := 0; rep < reps; rep++ {
		for Li := 0; Li <= 70; Li++ {
			L := Li
			if Li > 64 {
				// beyond the property's 0..64: lengths longer than any fixed buffer a decoder might keep (the reducing
				// decoders take any length; the canonical one must reject)
				L = []int{65, 66, 80, 96, 128, 200}[Li-65]
			}
			k++
			if !c.Mine(k) {
				continue
			}
			id := fmt.Sprintf("decode/rep%d/len%d", rep, L)
			c.Case(id, func() {
				rng := c.Rand(id)
				strs, cls := c16strings(rng, L)
				for i, b := range strs {
					c16decode(c, b, lenClass(L)+"|"+cls[i])
				}
				if rep == 0 && L == 32 {
					c.Sample(map[string]interface{}{"decoder_input_hex": hx(strs[len(strs)-1]), "class": cls[len(strs)-1]})
				}
			})
		}
	}
	// encoders / round trips
	nb := c.Pick(20, 200)
	for b := 0; b < nb; b++ {
		if !c.Mine(b) {
			continue
		}
		id := fmt.Sprintf("roundtrip/%d", b)
		c.Case(id, func() {
			rng := c.Rand(id)
			for j := 0; j < 400; j++ {
				s := randScalar(rng)
				c16roundtrip(c, s, rng)
			}
		})
	}
}

func c16decode(c *mon.Ctx, b []byte, cls string) {
	if len(b) == 0 {
		// the empty byte string as a nil slice: the reducing decoders give 0, the canonical one accepts 0
		var z1, z2, z3, z4 fr.Element
		z1.SetUint64(5)
		z2, z3, z4 = z1, z1, z1
		z1.SetBytes(nil)
		z2.SetBytesLE(nil)
		_, err3 := z3.SetBytesLECanonical(nil)
		_, err4 := z4.SetInterface([]byte(nil))
		if !z1.IsZero() || !z2.IsZero() || err3 != nil || !z3.IsZero() || err4 != nil || !z4.IsZero() {
			c.Fail("wrong-value/nil-slice", fmt.Sprintf("decoding the empty byte string given as a nil slice: SetBytes zero=%v SetBytesLE zero=%v SetBytesLECanonical err=%v SetInterface err=%v", z1.IsZero(), z2.IsZero(), err3, err4), nil)
		}
	}
	if len(b)%3 == 2 || len(b) == 32 || len(b) > 64 {
		c16readOnly(c, b)
	}
	snap := append([]byte(nil), b...)
	vBE := ref.FromBE(b)
	vLE := ref.FromLE(b)
	nt := len(b) > 0 && vBE.Sign() != 0
	check := func(dec string, got *fr.Element, want *big.Int) {
		c.Count("buffer_snapshots", 1)
		if !bytes.Equal(b, snap) {
			c.Fail("input-modified/"+dec, fmt.Sprintf("%s modified the caller's %d-byte slice", dec, len(b)), map[string]string{"before": hx(snap), "after": hx(b)})
			copy(b, snap)
		}
		if got != nil {
			if !FrRawReduced(got) || FrToBig(got).Cmp(new(big.Int).Mod(want, ref.R)) != 0 {
				c.Fail("wrong-value/"+dec, fmt.Sprintf("%s(%s) = %s, want %s", dec, hx(snap), FrToBig(got).Text(16), new(big.Int).Mod(want, ref.R).Text(16)), nil)
			}
		}
		c.Eval(dec+"|"+cls, nt)
	}
	var z fr.Element
	z.SetUint64(99)
	z.SetBytes(b)
	check("SetBytes", &z, vBE)
	z.SetUint64(99)
	z.SetBytesLE(b)
	check("SetBytesLE", &z, vLE)
	var z2 fr.Element
	z2.SetBytesLE(b)
	if z2 != z {
		c.Fail("decode-twice-differs/SetBytesLE", "decoding the same buffer twice with SetBytesLE gives two scalars", map[string]string{"buf": hx(snap)})
	}
	// canonical decoder
	z.SetUint64(99)
	res, err := z.SetBytesLECanonical(b)
	canon := vLE.Cmp(ref.R) < 0
	if canon {
		c.Count("canonical_acceptances", 1)
		if err != nil || res == nil {
			c.Fail("canonical-rejected/SetBytesLECanonical", fmt.Sprintf("SetBytesLECanonical rejects the canonical value %s (len %d)", vLE.Text(16), len(b)), nil)
			check("SetBytesLECanonical", nil, vLE)
		} else {
			check("SetBytesLECanonical", res, vLE)
		}
	} else {
		c.Count("canonical_rejections", 1)
		if err == nil {
			c.Fail("non-canonical-accepted/SetBytesLECanonical", fmt.Sprintf("SetBytesLECanonical accepts %s >= r", vLE.Text(16)), map[string]string{"buf": hx(snap)})
		}
		check("SetBytesLECanonical", nil, vLE)
	}
	if _, err2 := new(fr.Element).SetBytesLECanonical(b); (err2 == nil) != (err == nil) {
		c.Fail("decode-twice-differs/SetBytesLECanonical", "canonical decoder gives different verdicts on the same buffer", map[string]string{"buf": hx(snap)})
	}
	// SetInterface([]byte) == SetBytes
	var zi fr.Element
	if _, err := zi.SetInterface(b); err != nil {
		c.Fail("error/SetInterface", "SetInterface([]byte) failed: "+err.Error(), nil)
	} else {
		check("SetInterface", &zi, vBE)
	}
	// SetBigInt with the same value, its negation and SetString
	var zb fr.Element
	vSnap := new(big.Int).Set(vBE)
	zb.SetBigInt(vBE)
	if vBE.Cmp(vSnap) != 0 {
		c.Fail("input-modified/SetBigInt", "SetBigInt modified its argument "+vSnap.Text(16), nil)
		vBE.Set(vSnap)
	}
	check("SetBigInt", &zb, vBE)
	neg := new(big.Int).Neg(vBE)
	negSnap := new(big.Int).Set(neg)
	zb.SetBigInt(neg)
	check("SetBigInt(neg)", &zb, new(big.Int).Mod(neg, ref.R))
	if neg.Cmp(negSnap) != 0 {
		c.Fail("input-modified/SetBigInt", "SetBigInt modified its argument", nil)
	}
	zb.SetString(vBE.String())
	check("SetString", &zb, vBE)
	zb.SetString("-" + vBE.String())
	check("SetString(neg)", &zb, new(big.Int).Mod(new(big.Int).Neg(vBE), ref.R))
	// the same bytes in a slice with spare capacity: a decoder must not write beyond len either
	sb, sChk := spareBytes(snap)
	var zs1, zs2 fr.Element
	zs1.SetBytesLE(sb)
	zs2.SetBytes(sb)
	_, _ = new(fr.Element).SetBytesLECanonical(sb)
	if !sChk() || !bytes.Equal(sb, snap) {
		c.Fail("input-modified/spare-capacity", "a scalar decoder wrote into (the spare capacity of) the caller's slice", map[string]string{"buf": hx(snap)})
	}
	if FrToBig(&zs1).Cmp(new(big.Int).Mod(vLE, ref.R)) != 0 || FrToBig(&zs2).Cmp(new(big.Int).Mod(vBE, ref.R)) != 0 {
		c.Fail("wrong-value/spare-capacity", "decoding from a slice with spare capacity gives another value", nil)
	}
	// ReadScalar: exactly the first 32 bytes, canonical little-endian
	for _, step := range []int{64, 1, 7, -13, 0} {
		var rd io.Reader = &errReader{data: b, step: step}
		if step == 0 {
			rd = bytes.NewBuffer(b) // reads straight out of the caller's slice
		}
		if step < 0 {
			// history: a non-canonical and a short read (both fail) come first; then this stream is delivered in two
			// chunks and, between them, the reader itself reads another scalar and a point (two calls overlap)
			step = -step
			nc := ref.R.Bytes()
			for i, j := 0, len(nc)-1; i < j; i, j = i+1, j-1 {
				nc[i], nc[j] = nc[j], nc[i]
			}
			common.ReadScalar(bytes.NewReader(nc))
			common.ReadScalar(bytes.NewReader(nc[:9]))
			rd = &nestReader{data: b, chunk: step, at: 1, fn: func() {
				var sc [32]byte
				sc[0], sc[9] = 0x5a, byte(len(b))
				s2, err := common.ReadScalar(&nestReader{data: sc[:], chunk: 11, at: -1})
				if err != nil || s2 == nil || FrToBig(s2).Cmp(ref.FromLE(sc[:])) != 0 {
					c.Fail("wrong-value/ReadScalar/nested", fmt.Sprintf("ReadScalar called from inside another stream's reader: err=%v", err), nil)
				}
				g := banderwagon.Generator.Bytes()
				if p, err := common.ReadPoint(&nestReader{data: g[:], chunk: 5, at: -1}); err != nil || p.Bytes() != g {
					c.Fail("wrong-value/ReadPoint/nested", fmt.Sprintf("ReadPoint called from inside a scalar stream's reader: err=%v", err), nil)
				}
			}}
		}
		s, err := common.ReadScalar(rd)
		switch {
		case len(b) < 32:
			if err == nil {
				c.Fail("short-input-accepted/ReadScalar", fmt.Sprintf("ReadScalar accepted %d bytes", len(b)), nil)
			}
		default:
			v32 := ref.FromLE(b[:32])
			if v32.Cmp(ref.R) < 0 {
				if err != nil || s == nil {
					c.Fail("canonical-rejected/ReadScalar", "ReadScalar rejects canonical "+v32.Text(16), nil)
				} else if FrToBig(s).Cmp(v32) != 0 {
					c.Fail("wrong-value/ReadScalar", "ReadScalar value", nil)
				}
			} else if err == nil {
				c.Fail("non-canonical-accepted/ReadScalar", "ReadScalar accepts "+v32.Text(16)+" >= r", nil)
			}
		}
		check(fmt.Sprintf("ReadScalar/chunk%d", step), nil, vLE)
		if !bytes.Equal(b, snap) {
			c.Fail("input-modified/ReadScalar", fmt.Sprintf("ReadScalar modified the bytes it read from (reader variant %d)", step), map[string]string{"buf": hx(snap)})
			copy(b, snap)
		}
	}
}

var c16roBudget = 1500

// c16readOnly hands the decoders their input on a read-only memory page: a decoder that writes to its input at all -
// also transiently, putting everything back before it returns - faults (and would corrupt a concurrent reader of the
// same bytes, or crash on data mapped from a file).
func c16readOnly(c *mon.Ctx, b []byte) {
	if c16roBudget <= 0 || len(b) == 0 {
		return
	}
	c16roBudget--
	rb := roBytes(b)
	if rb == nil {
		return
	}
	for _, d := range []struct {
		name string
		f    func()
	}{
		{"SetBytes", func() { new(fr.Element).SetBytes(rb) }},
		{"SetBytesLE", func() { new(fr.Element).SetBytesLE(rb) }},
		{"SetBytesLECanonical", func() { new(fr.Element).SetBytesLECanonical(rb) }},
		{"ReadScalar", func() { common.ReadScalar(bytes.NewBuffer(rb)) }},
		{"fp.SetBytes", func() { new(fp.Element).SetBytes(rb) }},
	} {
		if faulted, msg := callRO(d.f); faulted && (strings.Contains(msg, "fault") || strings.Contains(msg, "memory address")) {
			c.Fail("input-written/"+d.name, fmt.Sprintf("%s wrote to its %d-byte input (the input was on a read-only page: %s)", d.name, len(b), msg), nil)
		}
	}
	c.Count("decodes_from_read_only_memory", 1)
}

func c16roundtrip(c *mon.Ctx, s *big.Int, rng *rand.Rand) {
	e := FrFromBig(s)
	keep := e
	be := e.Bytes()
	le := e.BytesLE()
	wantBE, wantLE := ref.BE32(s), ref.LE32(s)
	cls := "mid"
	if s.BitLen() <= 17 {
		cls = "small"
	} else if s.BitLen() >= 252 {
		cls = "top"
	}
	if be != wantBE {
		c.Fail("wrong-bytes/Bytes", fmt.Sprintf("Bytes(%s) = %s", s.Text(16), hx(be[:])), nil)
	}
	if le != wantLE {
		c.Fail("wrong-bytes/BytesLE", fmt.Sprintf("BytesLE(%s) = %s", s.Text(16), hx(le[:])), nil)
	}
	if m := e.Marshal(); !bytes.Equal(m, wantBE[:]) {
		c.Fail("wrong-bytes/Marshal", "Marshal != Bytes", nil)
	}
	var d fr.Element
	d.SetBytes(be[:])
	if d != keep {
		c.Fail("roundtrip/Bytes", "SetBytes(Bytes(s)) != s for "+s.Text(16), nil)
	}
	d.SetUint64(3)
	d.SetBytesLE(le[:])
	if d != keep {
		c.Fail("roundtrip/BytesLE", "SetBytesLE(BytesLE(s)) != s for "+s.Text(16), nil)
	}
	d.SetUint64(3)
	if r, err := d.SetBytesLECanonical(le[:]); err != nil || r == nil || *r != keep {
		c.Fail("roundtrip/BytesLECanonical", "SetBytesLECanonical(BytesLE(s)) != s for "+s.Text(16), nil)
	}
	if e != keep {
		c.Fail("input-modified/encode", "an encoder changed the scalar", nil)
	}
	// fp.BytesLE on a base field value
	v := randBig(rng, ref.P)
	if rng.Intn(8) == 0 {
		v = new(big.Int).Sub(ref.P, big.NewInt(int64(1+rng.Intn(3))))
	}
	fe := FpFromBig(v)
	got := fp.BytesLE(fe)
	w := ref.LE32(v)
	if !bytes.Equal(got, w[:]) {
		c.Fail("wrong-bytes/fp.BytesLE", "fp.BytesLE("+v.Text(16)+")", nil)
	}
	c.EvalN("roundtrip|"+cls, 7, s.Sign() != 0)
}
