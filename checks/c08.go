package checks

import (
	"fmt"
	"math/big"
	"math/rand"

	"github.com/crate-crypto/go-ipa/bandersnatch"
	"github.com/crate-crypto/go-ipa/banderwagon"

	"verif/mon"
	"verif/ref"
)

func init() {
	register(&Check{
		ID:    "C08",
		Title: "Group operations implement the prime-order Banderwagon group law",
		Rule: "element-history engine: seeded random programs of 30-60 operations (Add, Sub, Double, Neg, ScalarMul with edge scalars, AddMixed, Set, SetIdentity, MultiExp, precomputed-table Commit, decode(Bytes), Normalize, re-representation) over 14 slots incl. both members of the identity class, the generator and a CRS point, " +
			"receiver aliasing operands in 1/5 of the steps, each result compared with a shadow computed by the reference; plus direct law checks (s+t)P=sP+tP, s(P+Q)=sP+sQ incl. Q=-P, 0*P, r*P as (r-1)P+P, P-P, P+identity for P,Q in six representations and the full aliasing matrix; " +
			"a class is (operation or law, identity operand or not, scalar class, representation kinds); non-trivial = operands not both the identity",
		Technique:        "reference-model monitor: every operation of a random API history is shadowed by an independent twisted-Edwards implementation (math/big); result classes compared through raw coordinates (hook H3)",
		MinEvals:         map[string]int64{"quick": 8000, "thorough": 100000},
		MinClasses:       map[string]int64{"quick": 60, "thorough": 80},
		RequiredCounters: []string{"law_checks", "alias_checks", "identity_class_scalar_muls"},
		Assumptions:      []string{"the reference group law is validated by r*G=O, the published generator doublings, CRS digest and proof vectors, and by agreement of its affine and extended formulas"},
		Plan: func(tier string) []Child {
			return plus386(shardsVar(pick(tier, 12, 16), Child{Flavour: "plain", NCPU: 1}), 2)
		},
		Run: runC08,
	})
}

func scalarClass(s *big.Int) string {
	switch {
	case s.Sign() == 0:
		return "s=0"
	case s.Cmp(bigOne) == 0:
		return "s=1"
	case s.BitLen() <= 17:
		return "s-small"
	case new(big.Int).Sub(ref.R, s).BitLen() <= 17:
		return "s-near-r"
	case s.BitLen() <= 130:
		return "s-half"
	default:
		return "s-large"
	}
}

func runC08(c *mon.Ctx) {
	env := GetEnv()
	base := NewPool(c.Rand("pool"), 64)
	nh := c.Pick(240, 16000)
	for h := 0; h < nh; h++ {
		if !c.Mine(h) {
			continue
		}
		id := fmt.Sprintf("history/%d", h)
		c.Case(id, func() {
			rng := c.Rand(id)
			g := newEngine(c, "C08", rng, base, env)
			steps := 30 + rng.Intn(31)
			for i := 0; i < steps; i++ {
				g.step()
			}
			if h == 0 {
				c.Sample(map[string]interface{}{"history_tail": g.hist[len(g.hist)-10:]})
			}
		})
	}
	nl := c.Pick(120, 8000)
	for l := 0; l < nl; l++ {
		if !c.Mine(l) {
			continue
		}
		id := fmt.Sprintf("laws/%d", l)
		c.Case(id, func() { c08laws(c, c.Rand(id), base) })
	}
}

// lmul is the library's scalar multiplication on a fresh receiver.
func lmul(p *banderwagon.Element, s *big.Int) banderwagon.Element {
	var out banderwagon.Element
	fs := FrFromBig(s)
	out.ScalarMul(p, &fs)
	return out
}

func c08same(c *mon.Ctx, sig, msg string, got *banderwagon.Element, want ref.Point, detail map[string]string) bool {
	g, ok := ElemToRef(got)
	if !ok || !g.Affine().OnCurve() {
		X, Y, Z := got.VerifCoords()
		detail["got"] = fmt.Sprintf("X=%s Y=%s Z=%s", FpToBig(&X).Text(16), FpToBig(&Y).Text(16), FpToBig(&Z).Text(16))
		c.Fail("invalid-result/"+sig, msg+": result is not a valid point", detail)
		return false
	}
	if !ref.ClassEqual(g, want) {
		c.Fail("wrong-result/"+sig, msg, detail)
		return false
	}
	return true
}

func c08laws(c *mon.Ctx, rng *rand.Rand, base *Pool) {
	// operands: reference multiples or a member of the identity class, in random representations
	pickPoint := func() (ref.Point, string) {
		switch rng.Intn(5) {
		case 0:
			return ref.Identity(), "identity"
		default:
			return base.P[rng.Intn(len(base.P))], "generic"
		}
	}
	sp, kp := pickPoint()
	sq, kq := pickPoint()
	if rng.Intn(5) == 0 {
		sq, kq = ref.Neg(sp), "neg-of-P"
	}
	rp, rq := rng.Intn(NumRepKinds), rng.Intn(NumRepKinds)
	norm := ElemFromRef(sp, nil, false)
	P := Rerepresent(&norm, rp, rng)
	normq := ElemFromRef(sq, nil, false)
	Q := Rerepresent(&normq, rq, rng)
	pick := func() *big.Int {
		e := edgeScalars()
		if rng.Intn(2) == 0 {
			return e[rng.Intn(len(e))]
		}
		return randScalar(rng)
	}
	s, t := pick(), pick()
	det := func() map[string]string {
		return map[string]string{"P": kp, "Q": kq, "repP": fmt.Sprint(rp), "repQ": fmt.Sprint(rq), "s": s.Text(16), "t": t.Text(16),
			"P_enc": hx(be32(sp.Affine().X)), "Q_enc": hx(be32(sq.Affine().X))}
	}
	nt := !(kp == "identity" && kq == "identity")
	cls := fmt.Sprintf("%s,%s|%s,%s", kp, kq, scalarClass(s), scalarClass(t))
	if kp == "identity" {
		c.Count("identity_class_scalar_muls", 1)
	}

	// reference values
	rsP := ref.Mul(sp, s)
	sP := lmul(&P, s)
	c08same(c, "ScalarMul/"+kp, "s*P differs from the reference multiple", &sP, rsP, det())
	tP := lmul(&P, t)
	stP := lmul(&P, ref.AddR(s, t))
	var sum banderwagon.Element
	sum.Add(&sP, &tP)
	c08same(c, "law/(s+t)P=sP+tP/"+kp, "(s+t)P != sP+tP", &stP, ref.Mul(sp, ref.AddR(s, t)), det())
	c08same(c, "law/(s+t)P=sP+tP/"+kp, "sP+tP != reference", &sum, ref.Mul(sp, ref.AddR(s, t)), det())
	// s(P+Q) = sP + sQ
	var pq banderwagon.Element
	pq.Add(&P, &Q)
	spq := lmul(&pq, s)
	sQ := lmul(&Q, s)
	var sum2 banderwagon.Element
	sum2.Add(&sP, &sQ)
	want := ref.Mul(ref.Add(sp, sq), s)
	c08same(c, "law/s(P+Q)=sP+sQ/"+kq, "s(P+Q) differs from the reference", &spq, want, det())
	c08same(c, "law/s(P+Q)=sP+sQ/"+kq, "sP+sQ differs from the reference", &sum2, want, det())
	// 0*P, (r-1)P + P, P-P, P+identity
	zP := lmul(&P, new(big.Int))
	c08same(c, "law/0*P", "0*P is not the identity", &zP, ref.Identity(), det())
	rm1P := lmul(&P, new(big.Int).Sub(ref.R, bigOne))
	var rP banderwagon.Element
	rP.Add(&rm1P, &P)
	c08same(c, "law/r*P", "(r-1)P + P is not the identity", &rP, ref.Identity(), det())
	var pmp banderwagon.Element
	pmp.Sub(&P, &P)
	c08same(c, "law/P-P", "P-P is not the identity", &pmp, ref.Identity(), det())
	for _, idrep := range []bool{false, true} {
		id := ElemFromRef(ref.Identity(), nil, idrep)
		var r1, r2 banderwagon.Element
		r1.Add(&P, &id)
		r2.Add(&id, &P)
		c08same(c, "law/P+identity", "P + identity != P", &r1, sp, det())
		c08same(c, "law/P+identity", "identity + P != P", &r2, sp, det())
	}
	c.Count("law_checks", 12)
	c.EvalN("law|"+cls, 12, nt)

	// ---- aliasing matrix ----
	rAdd, rSub, rDbl, rNeg := ref.Add(sp, sq), ref.Sub(sp, sq), ref.Double(sp), ref.Neg(sp)
	keepQ := Q
	al := func(name string, f func(p, q *banderwagon.Element) *banderwagon.Element, want ref.Point) {
		p, q := P, Q
		res := f(&p, &q)
		if res == nil {
			c.Fail("nil-result/"+name, name+" returned nil", nil)
			return
		}
		c08same(c, "alias/"+name, name+" with aliased receiver differs from the reference", res, want, det())
		c.Count("alias_checks", 1)
	}
	al("p.Add(p,q)", func(p, q *banderwagon.Element) *banderwagon.Element { return p.Add(p, q) }, rAdd)
	al("p.Add(q,p)", func(p, q *banderwagon.Element) *banderwagon.Element { return p.Add(q, p) }, rAdd)
	al("p.Add(p,p)", func(p, q *banderwagon.Element) *banderwagon.Element { return p.Add(p, p) }, rDbl)
	al("p.Sub(p,q)", func(p, q *banderwagon.Element) *banderwagon.Element { return p.Sub(p, q) }, rSub)
	al("p.Sub(q,p)", func(p, q *banderwagon.Element) *banderwagon.Element { return p.Sub(q, p) }, ref.Neg(rSub))
	al("p.Sub(p,p)", func(p, q *banderwagon.Element) *banderwagon.Element { return p.Sub(p, p) }, ref.Identity())
	al("p.Double(p)", func(p, q *banderwagon.Element) *banderwagon.Element { return p.Double(p) }, rDbl)
	al("p.Neg(p)", func(p, q *banderwagon.Element) *banderwagon.Element { return p.Neg(p) }, rNeg)
	al("p.ScalarMul(p,s)", func(p, q *banderwagon.Element) *banderwagon.Element {
		fs := FrFromBig(s)
		return p.ScalarMul(p, &fs)
	}, rsP)
	al("p.Set(p)", func(p, q *banderwagon.Element) *banderwagon.Element { return p.Set(p) }, sp)
	af := sq.Affine()
	al("p.AddMixed(p,a)", func(p, q *banderwagon.Element) *banderwagon.Element {
		return p.AddMixed(p, bandersnatch.PointAffine{X: FpFromBig(af.X), Y: FpFromBig(af.Y)})
	}, rAdd)
	// non-receiver operands unchanged
	{
		p, q := P, Q
		var z banderwagon.Element
		z.Add(&p, &q)
		z.Sub(&p, &q)
		z.Double(&p)
		z.Neg(&p)
		fs := FrFromBig(s)
		z.ScalarMul(&p, &fs)
		if p != P || q != keepQ {
			c.Fail("operand-modified/law", "an operation modified a non-receiver operand", det())
		}
	}
	c.EvalN(fmt.Sprintf("alias|%s,%s|rep%d,%d", kp, kq, rp, rq), 11, nt)
}
