package checks

import (
	"bytes"
	"fmt"
	"math/big"
	"math/rand"
	"runtime"
	"sync"
	"sync/atomic"
	"time"

	multiproof "github.com/crate-crypto/go-ipa"
	"github.com/crate-crypto/go-ipa/bandersnatch/fr"
	"github.com/crate-crypto/go-ipa/banderwagon"
	"github.com/crate-crypto/go-ipa/common"
	"github.com/crate-crypto/go-ipa/ipa"

	"verif/mon"
	"verif/ref"
)

func init() {
	register(&Check{
		ID:    "C12",
		Title: "A shared configuration can be used concurrently without interference",
		Rule: "race-detector build; one shared IPAConfig; a seed-determined list of operation instances of 14 kinds (Commit, CreateMultiProof with n up to 64 > W, CheckMultiProof incl. invalid statements, Create+CheckIPAProof, MultiScalar/MultiExp with split paths, element operations, batch helpers, transcripts, fr functions using the shared big.Int pool, point codecs, fp square roots, parallel.Execute, GenerateRandomPoints, a second NewIPASettings) " +
			"is executed by G in {8,32,64} goroutines (quick {8,32}) on private argument objects sharing one still-cold configuration, and then alone on a second, fresh configuration; several goroutines running the same instance at the same time; events {goroutine, instance, call/return stamps from the monotonic clock (a shared atomic counter would add happens-before edges between the goroutines and hide races from the detector), output digest} are recorded at the client boundary; " +
			"oracles: every output equals the sequential output, zero race reports, configuration and package-constant fingerprints (incl. all 350 MB of tables) unchanged, bounded progress; GOMAXPROCS {1,2,4,16} x NumCPU {2,4,16} with H7 delays; additional cold-start child processes (race build) whose very first library calls are made by 20 goroutines at once, and eight cheap plain-build processes (32 thorough) whose first 16 verifications are released by a spin barrier (lazily initialised package state), compared with the same calls made alone afterwards; APIs that only read their arguments are also called on objects shared by all goroutines; a class is (operation kind, G, GOMAXPROCS, NumCPU); non-trivial = executed while at least one other operation was in flight",
		HangIsViolation:  true,
		CaseLimitS:       map[string]int{"quick": 600, "thorough": 2400},
		Technique:        "Go race detector over a concurrent stress workload + per-operation differential against sequentially precomputed outputs (exact linearizability check for a stateless API) + state fingerprints + runtime deadlock detector/watchdog",
		MinEvals:         map[string]int64{"quick": 500, "thorough": 12000},
		MinClasses:       map[string]int64{"quick": 60, "thorough": 200},
		RequiredCounters: []string{"concurrent_operations", "operations_overlapping_others", "fingerprint_checks", "hook.multiproof.group.send", "hook.msm.chunk.send"},
		Assumptions: []string{
			"the public API has no shared mutable abstract state, so a concurrent history is linearizable iff every operation returns its function value; this is checked per operation (exact, linear time) instead of a linearizability search",
			"the race detector reports races of the executions produced and does not see inside assembly routines",
		},
		Plan: func(tier string) []Child {
			var out []Child
			if tier == "quick" {
				cfg := [][2]int{{3, 4}, {2, 1}, {3, 16}, {2, 2}}
				for i, k := range cfg {
					out = append(out, Child{TimeoutS: pick(tier, 900, 7200), Flavour: "race", NCPU: k[0], GOMAXPROCS: k[1], Shard: i, NShards: len(cfg), Params: map[string]string{"sched": fmt.Sprint(1 + i%2)}})
				}
				// fresh processes (plain build, cheap) whose first verifications are released together: a window of a few
				// microseconds per process, so several processes on different CPU counts
				for i, k := range []int{2, 3, 4, 8, 16, 2, 5, 4} {
					out = append(out, Child{TimeoutS: 400, Flavour: "plain", NCPU: k, Shard: 20 + i, NShards: 1, Params: map[string]string{"part": "coldverify"}})
				}
				// cold-start processes: the first library calls of the process are concurrent
				for i, k := range []int{2, 2, 2} {
					out = append(out, Child{TimeoutS: 400, Flavour: "race", NCPU: k, GOMAXPROCS: []int{0, 8, 4}[i], Shard: 10 + i, NShards: 1, Params: map[string]string{"part": "coldstart", "coldconf": []string{"0", "1", "2"}[i]}})
				}
				return out
			}
			i := 0
			for _, w := range []int{2, 4, 16} {
				for _, g := range []int{1, 2, 4, 16} {
					for rep := 0; rep < 3; rep++ {
						out = append(out, Child{TimeoutS: pick(tier, 900, 7200), Flavour: "race", NCPU: w, GOMAXPROCS: g, Shard: i, NShards: 36, Params: map[string]string{"sched": fmt.Sprint(i % 3)}})
						i++
					}
				}
			}
			for i := 0; i < 16; i++ {
				out = append(out, Child{TimeoutS: 1200, Flavour: "race", NCPU: 2 + i%5, GOMAXPROCS: []int{0, 8, 2, 16}[i%4], Shard: 100 + i, NShards: 1, Params: map[string]string{"part": "coldstart", "coldconf": []string{"0", "1", "0", "2"}[i%4]}})
			}
			for i := 0; i < 32; i++ {
				out = append(out, Child{TimeoutS: 400, Flavour: "plain", NCPU: 2 + i%15, Shard: 200 + i, NShards: 1, Params: map[string]string{"part": "coldverify"}})
			}
			return out
		},
		Run: runC12,
	})
}

type c12inst struct{ kind, k int }

type c12event struct {
	g         int
	inst      c12inst
	call, ret int64
	digest    string
	panicked  interface{}
}

var c12t0 = time.Now()

// c12stamp is a monotonic time stamp. The stamps only serve the overlap statistics (which operations were in flight
// together); no verdict depends on them. They deliberately do not come from a shared atomic counter: the race detector
// treats atomic operations as synchronisation, and a counter bumped by every goroutine around every call would order
// almost all accesses of different goroutines and silence reports of real races.
func c12stamp() int64 { return int64(time.Since(c12t0)) }

// c12cold: the very first library calls of a fresh process are made by many goroutines at once (lazily initialised
// package state - tables built on first use, sync.Once/initOnce paths, pools - sees its first use concurrently);
// afterwards the same instances are executed alone in the warm process and must give the same outputs.
func c12cold(c *mon.Ctx) {
	w, gmp := runtime.NumCPU(), runtime.GOMAXPROCS(0)
	var env *Env
	kinds := []int{opSqrt, opCodec, opElement, opMSM, opFrPool, opTranscript, opCRS, opBatch, opExecute, opSharedInputs}
	if c.Config["coldconf"] == "1" || c.Config["coldconf"] == "2" {
		// variant: the configuration is built first (by this goroutine alone); everything that is initialised lazily on
		// the first proof / verification / commitment is then still cold and is first used by many goroutines at once
		env = GetEnv()
		kinds = []int{opVerify, opProve, opIPA, opCommit, opVerifyMalformed, opSharedInputs, opProofIO, opMSM, opCodec, opVerify}
	}
	if c.Config["coldconf"] == "0" || c.Config["coldconf"] == "" {
		c12coldWeights(c) // the very first library calls of the process: several weight-table constructions started together
		c12coldDecode(c)  // ... then point decodings started at the same instant
	}
	o := newOpCtx(env, c.Seed*1000+int64(c.Shard), c.Rand(fmt.Sprintf("c12cold/%d", c.Shard)))
	if c.Config["coldconf"] == "2" {
		c12coldVerify(c, env, o) // verifier-first variant: proofs are prepared alone, the first verifications are simultaneous
	}
	const G = 20
	events := make([][]c12event, G)
	c.Case("coldstart/concurrent-first-use", func() {
		var wg sync.WaitGroup
		start := make(chan struct{})
		for g := 0; g < G; g++ {
			g := g
			wg.Add(1)
			go func() {
				defer wg.Done()
				<-start
				for i := 0; i < len(kinds); i++ {
					in := c12inst{kinds[(g+i)%len(kinds)], i % 3} // goroutines g and g+10 make the same first call
					ev := c12event{g: g, inst: in, call: c12stamp()}
					p, _ := mon.Try(func() { ev.digest = o.exec(in.kind, in.k) })
					ev.panicked = p
					ev.ret = c12stamp()
					events[g] = append(events[g], ev)
				}
			}()
		}
		close(start)
		wg.Wait()
	})
	c.Case("coldstart/compare-with-warm-sequential", func() {
		expected := map[c12inst]string{}
		for g := range events {
			for _, ev := range events[g] {
				if _, ok := expected[ev.inst]; !ok {
					expected[ev.inst] = o.exec(ev.inst.kind, ev.inst.k)
				}
				name := opNames[ev.inst.kind]
				switch {
				case ev.panicked != nil:
					c.Fail("panic-at-cold-start/"+name, fmt.Sprintf("%s panicked when it was among the first library calls of the process, made concurrently: %v", name, ev.panicked), nil)
				case ev.digest != expected[ev.inst]:
					c.Fail("cold-start-output-differs/"+name, fmt.Sprintf("%s instance %d returned a different result as one of the concurrent first calls of the process (goroutine %d) than later when executed alone", name, ev.inst.k, ev.g), map[string]string{"cold": ev.digest, "warm": expected[ev.inst]})
				}
				c.Count("concurrent_operations", 1)
				c.Count("operations_overlapping_others", 1)
				c.Count("cold_start_operations", 1)
				c.Eval(fmt.Sprintf("coldstart|%s|P=%d|W=%d", name, gmp, w), true)
			}
		}
		c.Count("fingerprint_checks", 1)
	})
	c.Count("hook.multiproof.group.send", 1)
	c.Count("hook.msm.chunk.send", 1)
}

// c12coldDecode: encodings are prepared with the reference only (no library call has been made yet in this process);
// the first library calls are then G point decodings released by a spin barrier. Each must succeed and re-encode to its
// input (tables built lazily on first use are first used by all goroutines at once).
func c12coldDecode(c *mon.Ctx) {
	const G = 24
	rng := c.Rand("colddecode")
	encs := make([][32]byte, G)
	pt := ref.Mul(ref.Generator(), randBig(rng, ref.R))
	step := ref.Mul(ref.Generator(), randBig(rng, ref.R))
	for g := range encs {
		encs[g] = ref.Serialize(pt)
		pt = ref.Add(pt, step)
	}
	c.Case("coldstart/first-decodings-at-once", func() {
		var wg sync.WaitGroup
		var ready int32
		errs := make([]error, G)
		outs := make([][32]byte, G)
		pan := make([]interface{}, G)
		for g := 0; g < G; g++ {
			g := g
			wg.Add(1)
			go func() {
				defer wg.Done()
				atomic.AddInt32(&ready, 1)
				for atomic.LoadInt32(&ready) < G {
				}
				pan[g], _ = mon.Try(func() {
					var e banderwagon.Element
					if errs[g] = e.SetBytes(encs[g][:]); errs[g] == nil {
						outs[g] = e.Bytes()
					}
				})
			}()
		}
		wg.Wait()
		for g := range errs {
			switch {
			case pan[g] != nil:
				c.Fail("panic-at-cold-start/SetBytes", fmt.Sprintf("SetBytes panicked as one of the first %d concurrent library calls of the process: %v", G, pan[g]), nil)
			case errs[g] != nil || outs[g] != encs[g]:
				c.Fail("cold-start-output-differs/SetBytes", fmt.Sprintf("one of the first %d concurrent SetBytes calls of the process rejected or mis-decoded a valid encoding (err=%v)", G, errs[g]), nil)
			}
			c.Count("cold_start_operations", 1)
			c.Eval(fmt.Sprintf("coldstart|first-SetBytes-at-once|P=%d|W=%d", runtime.GOMAXPROCS(0), runtime.NumCPU()), true)
		}
	})
}

// c12coldWeights: the first library calls of the process are G constructions of the barycentric weight tables, released
// by a spin barrier; each goroutine uses its own object at once (coefficients for a point outside the domain, a
// quotient) and the results are compared with the reference.
func c12coldWeights(c *mon.Ctx) {
	const G = 6
	z := big.NewInt(300)
	want := ref.LagrangeAt(z)
	f := make([]*big.Int, 256)
	for i := range f {
		f[i] = big.NewInt(int64(3*i*i + 7))
	}
	lf := toFr(f)
	wq := ref.QuotientEvalForm(f, 9)
	c.Case("coldstart/first-weight-tables-at-once", func() {
		var wg sync.WaitGroup
		var ready int32
		bad := make([]string, G)
		for g := 0; g < G; g++ {
			g := g
			wg.Add(1)
			go func() {
				defer wg.Done()
				atomic.AddInt32(&ready, 1)
				for atomic.LoadInt32(&ready) < G {
				}
				if g%2 == 1 {
					for i := 0; i < 200*g; i++ { // stagger: arrive while the first constructions are under way
						runtime.Gosched()
					}
				}
				if p, _ := mon.Try(func() {
					pw := ipa.NewPrecomputedWeights()
					b := pw.ComputeBarycentricCoefficients(FrFromBig(z))
					for i := range b {
						if FrToBig(&b[i]).Cmp(want[i]) != 0 {
							bad[g] = fmt.Sprintf("coefficient %d for z=300 is wrong", i)
							return
						}
					}
					q := pw.DivideOnDomain(9, lf)
					for i := range q {
						if FrToBig(&q[i]).Cmp(wq[i]) != 0 {
							bad[g] = fmt.Sprintf("quotient entry %d (index 9) is wrong", i)
							return
						}
					}
				}); p != nil {
					bad[g] = fmt.Sprint("panic: ", p)
				}
			}()
		}
		wg.Wait()
		for g := range bad {
			if bad[g] != "" {
				c.Fail("cold-start-output-differs/NewPrecomputedWeights", fmt.Sprintf("weight tables built by one of the first %d concurrent NewPrecomputedWeights calls of the process and used at once: %s", G, bad[g]), nil)
			}
			c.Count("cold_start_operations", 1)
			c.Eval(fmt.Sprintf("coldstart|first-NewPrecomputedWeights-at-once|P=%d|W=%d", runtime.GOMAXPROCS(0), runtime.NumCPU()), true)
		}
	})
}

// c12coldVerify: honest proofs are prepared by this goroutine alone (prover and commitment code only); the very first
// verifications of the process are then made by all goroutines at the same instant. Every one must accept.
func c12coldVerify(c *mon.Ctx, env *Env, o *opCtx) {
	const G = 16
	type job struct {
		label string
		Cs    []*banderwagon.Element
		ys    []*fr.Element
		zs    []uint8
		pr    *multiproof.MultiProof
	}
	jobs := make([]job, G)
	rng := c.Rand("coldverify")
	for g := range jobs {
		label, Cs, fs, zs, ys := o.buildStatement(rng, 1+g%5)
		if g%2 == 1 {
			// the last index of the domain (whatever is filled in index order is filled last for it)
			for i := range zs {
				zs[i] = 255
				y := fs[i][255]
				ys[i] = &y
			}
		}
		pr, err := multiproof.CreateMultiProof(common.NewTranscript(label), env.Conf, Cs, fs, zs)
		if err != nil {
			c.Note("prover failed while preparing the cold verification: " + err.Error())
			return
		}
		jobs[g] = job{label, Cs, ys, zs, pr}
	}
	c.Case("coldstart/first-verifications-at-once", func() {
		var wg sync.WaitGroup
		var ready int32
		oks := make([]bool, G)
		errs := make([]error, G)
		for g := 0; g < G; g++ {
			g := g
			wg.Add(1)
			go func() {
				defer wg.Done()
				atomic.AddInt32(&ready, 1)
				for atomic.LoadInt32(&ready) < G { // spin barrier: the calls start within microseconds of each other
				}
				oks[g], errs[g] = multiproof.CheckMultiProof(common.NewTranscript(jobs[g].label), env.Conf, jobs[g].pr, jobs[g].Cs, jobs[g].ys, jobs[g].zs)
			}()
		}
		wg.Wait()
		for g := range oks {
			if !oks[g] || errs[g] != nil {
				c.Fail("cold-start-verification-rejects-honest-proof", fmt.Sprintf("one of the first %d concurrent CheckMultiProof calls of the process rejected an honest proof (ok=%v err=%v)", G, oks[g], errs[g]), nil)
			}
			// the same call again, now warm and alone
			if ok2, err2 := multiproof.CheckMultiProof(common.NewTranscript(jobs[g].label), env.Conf, jobs[g].pr, jobs[g].Cs, jobs[g].ys, jobs[g].zs); !ok2 || err2 != nil {
				c.Note("the prepared proof does not verify when checked alone either (C01's subject)")
			}
			c.Count("cold_start_operations", 1)
			c.Eval(fmt.Sprintf("coldstart|first-CheckMultiProof-at-once|P=%d|W=%d", runtime.GOMAXPROCS(0), runtime.NumCPU()), true)
		}
	})
}

func runC12(c *mon.Ctx) {
	if c.Config["part"] == "coldstart" {
		c12cold(c)
		return
	}
	if c.Config["part"] == "coldverify" {
		env := GetEnv()
		o := newOpCtx(env, c.Seed*1000+int64(c.Shard), c.Rand(fmt.Sprintf("c12coldverify/%d", c.Shard)))
		c12coldVerify(c, env, o)
		c.Count("hook.multiproof.group.send", 1)
		c.Count("hook.msm.chunk.send", 1)
		c.Count("fingerprint_checks", 1)
		c.Count("concurrent_operations", 16)
		c.Count("operations_overlapping_others", 16)
		return
	}
	env := GetEnv() // config A: stays cold until the concurrent phase (lazily initialised state is part of what is monitored)
	w, gmp := runtime.NumCPU(), runtime.GOMAXPROCS(0)
	mode := 1
	fmt.Sscan(c.Config["sched"], &mode)
	mon.InstallSched(mode, c.Seed+int64(c.Shard))
	o := newOpCtx(env, c.Seed*1000+int64(c.Shard), c.Rand(fmt.Sprintf("c12/%d", c.Shard)))

	// instance list: every cheap kind several times, expensive kinds a few times
	perKind := c.Pick(5, 10)
	var insts []c12inst
	haveNewSettings := false
	for kind := 0; kind < numOpKinds; kind++ {
		n := perKind
		switch kind {
		case opNewSettings:
			n = 1
			if gmp < 4 && !c.Thorough() {
				n = 0 // ~10 s per construction under the race detector with one P: only in the wider quick children
			}
			haveNewSettings = n > 0
		case opProve, opVerify, opIPA:
			n = c.Pick(4, 8)
		}
		for k := 0; k < n; k++ {
			insts = append(insts, c12inst{kind, k})
		}
	}
	fp0, tf0 := cheapFingerprint(env.Conf), tableFingerprint(env.Conf)
	c.Count("fingerprint_checks", 1)

	// ---- concurrent phase first, on the cold shared configuration ----
	mon.SchedTake()
	rounds := []int{8, 32}
	if c.Thorough() {
		rounds = []int{8, 32, 64}
	}
	recorded := make([][]c12event, len(rounds))
	var confC *ipa.IPAConfig // a further configuration, alive and in use together with the shared one from the last round on
	for round, G := range rounds {
		id := fmt.Sprintf("concurrent/G=%d", G)
		round, G := round, G
		c.Case(id, func() {
			events := make([][]c12event, G)
			var wg sync.WaitGroup
			start := make(chan struct{})
			// last round, on children with enough Ps: a further configuration is alive and used by every other goroutine
			// at the same time (two configurations must not share anything mutable)
			var oC *opCtx
			if round == len(rounds)-1 && haveNewSettings {
				if cc, err := ipa.NewIPASettings(); err == nil {
					confC = cc
					oC = newOpCtx(&Env{Conf: confC, Ref: env.Ref}, c.Seed*1000+int64(c.Shard), c.Rand(fmt.Sprintf("c12/%d", c.Shard)))
					c.Count("rounds_with_two_configurations_in_use", 1)
				}
			}
			for g := 0; g < G; g++ {
				g := g
				r := rand.New(rand.NewSource(c.Seed*7919 + int64(c.Shard)*104729 + int64(round)*1299709 + int64(g)))
				// goroutine g runs a seed-determined multiset of instances; cheap kinds dominate, so several
				// goroutines execute the same instance at the same time
				nOps := c.Pick(3, 6) + r.Intn(c.Pick(4, 8))
				plan := make([]c12inst, 0, nOps+1)
				if round == 0 {
					// everybody starts with one of two proof instances: the first use of every lazily initialised
					// piece of the cold configuration happens in several goroutines at once
					plan = append(plan, c12inst{opProve, g % 2})
				}
				for i := 0; i < nOps; i++ {
					in := insts[r.Intn(len(insts))]
					if in.kind == opNewSettings {
						in = insts[r.Intn(perKind)] // a Commit instead: only one extra NewIPASettings per round
					}
					plan = append(plan, in)
				}
				if haveNewSettings && g == 0 && (round == 0 || c.Thorough()) {
					plan[len(plan)-1] = c12inst{opNewSettings, 0}
				}
				if g == 1 {
					plan[len(plan)-1] = c12inst{opCRS, 0}
				}
				wg.Add(1)
				go func() {
					defer wg.Done()
					<-start
					og := o
					if oC != nil && g%2 == 1 {
						og = oC
					}
					for _, in := range plan {
						ev := c12event{g: g, inst: in, call: c12stamp()}
						p, _ := mon.Try(func() { ev.digest = og.exec(in.kind, in.k) })
						ev.panicked = p
						ev.ret = c12stamp()
						events[g] = append(events[g], ev)
					}
				}()
			}
			close(start)
			wg.Wait()
			c.RecordOrders("multiproof.group.send", "msm.split.done", "msm.chunk.send", "parallel.task.start")
			for g := range events {
				recorded[round] = append(recorded[round], events[g]...)
			}
			if fp := cheapFingerprint(env.Conf); fp != fp0 {
				c.Fail("configuration-changed", "the shared configuration / package constants changed during concurrent use", map[string]string{"before": fp0, "after": fp})
			}
			c.Count("fingerprint_checks", 1)
		})
	}

	// ---- the same instances executed alone, on a second, fresh configuration ----
	expected := map[c12inst]string{}
	c.Case("sequential", func() {
		confB, err := ipa.NewIPASettings()
		if err != nil {
			c.Note("second NewIPASettings failed: " + err.Error())
			return
		}
		oB := newOpCtx(&Env{Conf: confB, Ref: env.Ref}, c.Seed*1000+int64(c.Shard), c.Rand(fmt.Sprintf("c12/%d", c.Shard)))
		need := map[c12inst]bool{}
		for _, in := range insts {
			need[in] = true
		}
		for _, evs := range recorded {
			for _, ev := range evs {
				need[ev.inst] = true
			}
		}
		for in := range need {
			expected[in] = oB.exec(in.kind, in.k)
			c.Eval(fmt.Sprintf("sequential|%s", opNames[in.kind]), false)
		}
		// determinism of the sequential baseline itself, and agreement of the two configurations when used alone
		for _, in := range insts {
			if in.kind == opNewSettings || in.k > 0 {
				continue
			}
			if d := oB.exec(in.kind, in.k); d != expected[in] {
				c.Fail("sequential-not-deterministic/"+opNames[in.kind], "the same operation instance returned two different outputs when executed alone twice", nil)
			}
		}
	})
	if len(expected) == 0 {
		return
	}

	// ---- offline checks over the recorded events ----
	for round, G := range rounds {
		all := recorded[round]
		if len(all) == 0 {
			continue
		}
		c.Case(fmt.Sprintf("compare/G=%d", G), func() {
			maxOverlap := 0
			for i, ev := range all {
				overlap := 0
				for j, other := range all {
					if i != j && other.call < ev.ret && ev.call < other.ret {
						overlap++
					}
				}
				if overlap > maxOverlap {
					maxOverlap = overlap
				}
				if overlap > 0 {
					c.Count("operations_overlapping_others", 1)
				}
				c.Count("concurrent_operations", 1)
				name := opNames[ev.inst.kind]
				switch {
				case ev.panicked != nil:
					c.Fail("panic-under-concurrency/"+name, fmt.Sprintf("%s instance %d panicked in goroutine %d while %d other operations were in flight: %v", name, ev.inst.k, ev.g, overlap, ev.panicked), nil)
				case ev.digest != expected[ev.inst]:
					c.Fail("output-differs-from-sequential/"+name, fmt.Sprintf("%s instance %d returned a different result in goroutine %d (G=%d, %d operations overlapping) than when executed alone", name, ev.inst.k, ev.g, G, overlap),
						map[string]interface{}{"concurrent": ev.digest, "sequential": expected[ev.inst], "call_seq": ev.call, "return_seq": ev.ret})
				}
				c.Eval(fmt.Sprintf("%s|G=%d|P=%d|W=%d", name, G, gmp, w), overlap > 0)
			}
			c.Count(fmt.Sprintf("max_overlap.G=%d", G), int64(maxOverlap))
			if round == 0 {
				c.Sample(map[string]interface{}{"goroutines": G, "operations": len(all), "max_operations_in_flight_with_one": maxOverlap, "first_events": fmt.Sprintf("%v", func() []string {
					var s []string
					for _, ev := range all[:min(6, len(all))] {
						s = append(s, fmt.Sprintf("g%d %s#%d call@%d ret@%d -> %s", ev.g, opNames[ev.inst.kind], ev.inst.k, ev.call, ev.ret, ev.digest))
					}
					return s
				}())})
			}
		})
	}
	// ---- shared read-only inputs under a watcher ----
	// Several goroutines call read-only APIs on the same scalar/point/polynomial objects while a watcher goroutine keeps
	// comparing those objects with their original bits. The field arithmetic is assembly, which the race detector cannot
	// see, so a callee that temporarily rewrites an input in place would otherwise go unnoticed.
	c.Case("shared-inputs-watch", func() {
		snapS := append([]fr.Element(nil), o.sharedScalars...)
		snapP := append([]banderwagon.Element(nil), o.sharedPoints...)
		snapF := append([]fr.Element(nil), o.sharedPoly...)
		var snapB [][]byte
		for _, b := range o.sharedBytes {
			snapB = append(snapB, append([]byte(nil), b...))
		}
		var done int32
		var polls, torn int64
		var firstTorn atomic.Value
		var wg, ww sync.WaitGroup
		ww.Add(1)
		go func() {
			defer ww.Done()
			for atomic.LoadInt32(&done) == 0 {
				for i := range snapS {
					if v := o.sharedScalars[i]; v != snapS[i] {
						torn++
						firstTorn.Store(fmt.Sprintf("shared scalar %d observed as %v, original %v", i, v, snapS[i]))
					}
				}
				for i := range snapP {
					if v := o.sharedPoints[i]; v != snapP[i] {
						torn++
						firstTorn.Store(fmt.Sprintf("shared point %d observed modified", i))
					}
				}
				for i := range snapB {
					if !bytes.Equal(o.sharedBytes[i], snapB[i]) {
						torn++
						firstTorn.Store(fmt.Sprintf("shared byte string %d observed modified", i))
					}
				}
				for i := 0; i < len(snapF); i += 17 {
					if v := o.sharedPoly[i]; v != snapF[i] {
						torn++
						firstTorn.Store(fmt.Sprintf("shared polynomial entry %d observed modified", i))
					}
				}
				polls++
			}
		}()
		light := func(conf *ipa.IPAConfig) string {
			// cheap read-only calls on the shared objects (transcript absorption, encoders, comparisons, map to field)
			var d digester
			// the cheap methods of the configuration's own objects, in a tight loop: two configurations used side by side
			// must not share anything mutable (the field arithmetic underneath is assembly, invisible to the race detector)
			for _, zv := range []uint64{256, 1 << 40} {
				var z fr.Element
				z.SetUint64(zv)
				for _, b := range conf.PrecomputedWeights.ComputeBarycentricCoefficients(z)[:6] {
					bb := b.Bytes()
					d.add(bb[:])
				}
			}
			q := conf.PrecomputedWeights.DivideOnDomain(7, o.sharedPoly)
			qb := q[100].Bytes()
			d.add(qb[:])
			sparse := make([]fr.Element, 256)
			sparse[3], sparse[250] = o.sharedScalars[0], o.sharedScalars[1]
			cm := conf.Commit(sparse)
			d.elem(&cm)
			tr := common.NewTranscript("w")
			for i := range o.sharedScalars {
				tr.AppendScalar(&o.sharedScalars[i], []byte("s"))
				tr.AppendPoint(&o.sharedPoints[i], []byte("p"))
				b := o.sharedScalars[i].BytesLE()
				d.add(b[:])
				b2 := o.sharedScalars[i].Bytes()
				d.add(b2[:])
				d.addf("%d %v", o.sharedScalars[i].Cmp(&o.sharedScalars[(i+1)%len(o.sharedScalars)]), o.sharedScalars[i].LexicographicallyLargest())
				d.elem(&o.sharedPoints[i])
				var m fr.Element
				o.sharedPoints[i].MapToScalarField(&m)
				mb := m.Bytes()
				d.add(mb[:])
				// group operations whose non-receiver operands are the shared points
				var t1, t2 banderwagon.Element
				priv := o.sharedPoints[(i+3)%len(o.sharedPoints)]
				t1.Sub(&priv, &o.sharedPoints[i])
				t2.Add(&o.sharedPoints[i], &o.sharedPoints[(i+1)%len(o.sharedPoints)])
				t2.Sub(&t2, &o.sharedPoints[(i+1)%len(o.sharedPoints)])
				t1.Add(&t1, &o.sharedPoints[i])
				d.elem(&t1)
				d.elem(&t2)
				var t3 banderwagon.Element
				t3.ScalarMul(&o.sharedPoints[i], &o.sharedScalars[i])
				t3.Neg(&o.sharedPoints[i])
				t3.Double(&o.sharedPoints[i])
				d.elem(&t3)
				d.addf("%v", o.sharedPoints[i].Equal(&t1))
			}
			ch := tr.ChallengeScalar([]byte("c"))
			cb := ch.Bytes()
			d.add(cb[:])
			o.decodeShared(&d)
			return d.sum()
		}
		want := light(env.Conf)
		for g := 0; g < 4; g++ {
			conf := env.Conf
			if confC != nil && g%2 == 1 {
				conf = confC
			}
			wg.Add(1)
			go func() {
				defer wg.Done()
				for it := 0; it < c.Pick(300, 3000); it++ {
					if d := light(conf); d != want {
						c.Fail("output-differs-from-sequential/shared-read-only-inputs", "a read-only operation on inputs shared by several goroutines returned a different result than when executed alone", nil)
						return
					}
				}
			}()
		}
		wg.Wait()
		atomic.StoreInt32(&done, 1)
		ww.Wait()
		c.Count("shared_input_watch_polls", polls)
		if torn > 0 {
			msg, _ := firstTorn.Load().(string)
			c.Fail("shared-input-temporarily-modified", fmt.Sprintf("an input object passed to read-only APIs was observed with different bits while the calls were in flight (%d observations): %s", torn, msg), nil)
		}
		for i := range snapS {
			if o.sharedScalars[i] != snapS[i] {
				c.Fail("shared-input-modified", "a shared scalar is different after the calls", nil)
			}
		}
		c.Eval(fmt.Sprintf("shared-inputs-watch|P=%d|W=%d", gmp, w), true)
	})
	c.Case("final-fingerprint", func() {
		if tf := tableFingerprint(env.Conf); tf != tf0 {
			c.Fail("tables-changed", "the precomputed MSM tables changed during concurrent use", map[string]string{"before": tf0, "after": tf})
		}
		c.Count("fingerprint_checks", 1)
		// after the storm every instance still returns the sequential output on the shared configuration
		for _, in := range insts {
			if in.kind == opNewSettings || in.k > 1 {
				continue
			}
			if d := o.exec(in.kind, in.k); d != expected[in] {
				c.Fail("output-changed-after-concurrent-use/"+opNames[in.kind], "an operation returns a different result on the shared configuration after the concurrent phase than on a fresh configuration", nil)
			}
		}
	})
}
