package checks

import (
	"fmt"
	"math/big"
	"math/rand"
	"runtime"

	"github.com/crate-crypto/go-ipa/bandersnatch/fp"
	"github.com/crate-crypto/go-ipa/bandersnatch/fr"
	"github.com/crate-crypto/go-ipa/banderwagon"

	"verif/mon"
	"verif/ref"
)

func init() {
	register(&Check{
		ID:    "C19",
		Title: "Batch helpers and uncompressed form agree with the single-element operations",
		Rule: "lists of length {0,1,2,W-1,W,W+1,2W-1,2W,2W+1,3W+2,255,256,257,300,random} for the child's NumCPU W in {1,2,3,5,8,16}, drawn from the slots of an element-history engine (all representations, identity class in both members), with pointer patterns {distinct copies, random shared pointers, duplicated pairs, all the same pointer, distinct objects whose Z coordinates multiply to one / are all equal}; " +
			"ElementsToBytes / BatchToBytesUncompressed / BatchMapToScalarField compared position by position with the single-element calls and the reference; BatchNormalize checked for Z=1, unchanged class, and - with an un-normalisable element (all-zero, or Z=0 with X,Y!=0) at each position - error plus bitwise unchanged list; trusted uncompressed round trip; " +
			"a class is (helper, length class relative to W, pointer pattern, identity present, NumCPU); non-trivial = non-empty list",
		Technique:        "reference-model monitor + single-vs-batch differential + bitwise snapshots, under several NumCPU (taskset) values with schedule-perturbation hook H7 at the parallel task start",
		MinEvals:         map[string]int64{"quick": 3000, "thorough": 40000},
		MinClasses:       map[string]int64{"quick": 100, "thorough": 150},
		RequiredCounters: []string{"batchnormalize_error_paths", "positions_compared", "hook.parallel.task.start"},
		Assumptions:      []string{"NumCPU values above 16 cannot be produced on this machine"},
		Plan: func(tier string) []Child {
			var out []Child
			cpus := []int{1, 2, 3, 5, 8, 16}
			if tier == "thorough" {
				cpus = []int{1, 2, 3, 4, 5, 6, 7, 8, 9, 11, 13, 16}
			}
			for i, k := range cpus {
				out = append(out, Child{Flavour: "plain", NCPU: k, Shard: i, NShards: len(cpus), Params: map[string]string{"sched": "2"}})
			}
			if tier == "thorough" {
				out = append(out, Child{Flavour: "race", NCPU: 4, Shard: 0, NShards: 12, Params: map[string]string{"sched": "1"}})
			}
			return out
		},
		Run: runC19,
	})
}

func c19list(g *engine, rng *rand.Rand, n, pattern int) ([]*banderwagon.Element, []ref.Point, bool) {
	elems := make([]*banderwagon.Element, n)
	shad := make([]ref.Point, n)
	hasID := false
	// private copies of the slots so that in-place normalisation does not disturb the engine
	copies := make([]banderwagon.Element, len(g.e))
	copy(copies, g.e)
	store := make([]banderwagon.Element, n)
	for i := 0; i < n; i++ {
		j := rng.Intn(len(g.e))
		switch pattern {
		case 0: // distinct copies in random representations
			store[i] = Rerepresent(&g.e[j], rng.Intn(NumRepKinds), rng)
			if rng.Intn(2) == 0 {
				store[i] = g.e[j]
			}
			elems[i] = &store[i]
		case 1: // random shared pointers
			elems[i] = &copies[j]
		case 2: // duplicated pairs
			if i%2 == 1 {
				elems[i], shad[i] = elems[i-1], shad[i-1]
				continue
			}
			store[i] = g.e[j]
			elems[i] = &store[i]
		case 4: // normalised elements; relations between the Z coordinates of different elements are set up below
			store[i] = ElemFromRef(ref.FromAffine(g.sh[j].Affine()), nil, rng.Intn(2) == 0)
			elems[i] = &store[i]
		default: // all the same pointer
			j = 6
			elems[i] = &copies[j]
		}
		shad[i] = g.sh[j]
	}
	if pattern == 4 && n >= 2 {
		// Z coordinates that multiply to one although some of them are not one: an inverse pair, a triple (a, b, 1/ab),
		// an even number of Z = -1; and Z coordinates that are all equal (their differences vanish)
		scale := func(i int, l *big.Int) {
			store[i] = ElemFromRef(ref.FromAffine(shad[i].Affine()), l, rng.Intn(2) == 0)
		}
		perm := rng.Perm(n)
		a, b := randNonZeroP(rng), randNonZeroP(rng)
		switch k := rng.Intn(4); {
		case k == 0:
			scale(perm[0], a)
			scale(perm[1], ref.InvP(a))
		case k == 1 && n >= 3:
			scale(perm[0], a)
			scale(perm[1], b)
			scale(perm[2], ref.InvP(ref.MulP(a, b)))
		case k == 2:
			m := 2 * (1 + rng.Intn(n/2))
			for _, i := range perm[:m] {
				scale(i, ref.NegP(big.NewInt(1)))
			}
		default:
			for i := range store {
				scale(i, a)
			}
		}
	}
	for i := range shad {
		if isIdentityClass(shad[i]) {
			hasID = true
		}
	}
	return elems, shad, hasID
}

func lenClassW(n, w int) string {
	switch {
	case n == 0:
		return "n=0"
	case n == 1:
		return "n=1"
	case n < w:
		return "n<W"
	case n == w:
		return "n=W"
	case n%w == 0:
		return "n=kW"
	case n%w == 1:
		return "n=kW+1"
	case n%w == w-1:
		return "n=kW-1"
	default:
		return "n-other"
	}
}

func runC19(c *mon.Ctx) {
	runC19body(c)
	c.Case("retained-results", func() { c19kept.Flush(c) })
}

func runC19body(c *mon.Ctx) {
	env := GetEnv()
	base := NewPool(c.Rand("pool"), 48)
	w := runtime.NumCPU()
	mode := 0
	fmt.Sscan(c.Config["sched"], &mode)
	mon.InstallSched(mode, c.Seed)
	nh := c.Pick(36, 1200)
	for h := 0; h < nh; h++ {
		if !c.Mine(h) {
			continue
		}
		id := fmt.Sprintf("lists/%d", h)
		c.Case(id, func() {
			rng := c.Rand(id)
			g := newEngine(c, "C19", rng, base, env)
			for i := 0; i < 25; i++ {
				g.step()
			}
			sizes := []int{0, 1, 2, w - 1, w, w + 1, 2*w - 1, 2 * w, 2*w + 1, 3*w + 2, 255, 256, 257, 300, rng.Intn(301), rng.Intn(40)}
			for _, n := range sizes {
				if n < 0 {
					continue
				}
				if n > 60 && rng.Intn(3) != 0 {
					continue
				}
				for pattern := 0; pattern < 5; pattern++ {
					c19serialisers(c, g, rng, n, pattern, w)
					c19normalize(c, g, rng, n, pattern, w)
				}
			}
			if h == 0 {
				c.Sample(map[string]interface{}{"numcpu": w, "list_sizes": sizes, "pointer_patterns": []string{"distinct copies", "random shared pointers", "duplicated pairs", "all the same pointer", "relations between Z coordinates"}})
			}
		})
	}
}

func c19serialisers(c *mon.Ctx, g *engine, rng *rand.Rand, n, pattern, w int) {
	// history: now and then the helpers are first called with a list that contains an un-normalisable (all-zero)
	// element - whatever they return for it, later calls on valid lists must not be affected
	if n > 0 && rng.Intn(4) == 0 {
		pl, _, _ := c19list(g, rng, n, pattern)
		var bad banderwagon.Element
		pl[rng.Intn(n)] = &bad
		mon.Try(func() { banderwagon.ElementsToBytes(pl...) })
		mon.Try(func() { banderwagon.BatchToBytesUncompressed(pl...) })
		pr := make([]*fr.Element, n)
		prs := make([]fr.Element, n)
		for i := range pr {
			pr[i] = &prs[i]
		}
		mon.Try(func() { banderwagon.BatchMapToScalarField(pr, pl) })
		c.Count("poisoned_calls_before_valid_ones", 1)
	}
	elems, shad, hasID := c19list(g, rng, n, pattern)
	snap := make([]banderwagon.Element, n)
	for i := range elems {
		snap[i] = *elems[i]
	}
	cls := fmt.Sprintf("%s|ptr%d|id=%v|W=%d", lenClassW(n, w), pattern, hasID, w)
	cb := banderwagon.ElementsToBytes(elems...)
	ub := banderwagon.BatchToBytesUncompressed(elems...)
	if len(cb) != n || len(ub) != n {
		c.Fail("wrong-length/batch-serialiser", fmt.Sprintf("batch serialisers returned %d/%d entries for %d elements", len(cb), len(ub), n), nil)
		return
	}
	// the caller keeps the returned slices: after further batch calls they must still hold what they held
	if n > 0 && rng.Intn(4) == 0 {
		kcb, kub := cb, ub
		wcb, wub := append([][32]byte(nil), cb...), append([][64]byte(nil), ub...)
		c19kept.Keep(c, "batch-serialisers", func() string {
			for i := range wcb {
				if kcb[i] != wcb[i] || kub[i] != wub[i] {
					return fmt.Sprintf("entry %d of a slice returned earlier by ElementsToBytes/BatchToBytesUncompressed changed", i)
				}
			}
			return ""
		})
	}
	res := make([]*fr.Element, n)
	rs := make([]fr.Element, n)
	for i := range res {
		rs[i] = FrFromBig(randBig(rng, ref.R)) // results are written into used variables (a re-used result buffer)
		res[i] = &rs[i]
	}
	if err := banderwagon.BatchMapToScalarField(res, elems); err != nil {
		c.Fail("error/BatchMapToScalarField", err.Error(), nil)
	}
	for i := range elems {
		single := elems[i].Bytes()
		if cb[i] != single {
			c.Fail("ElementsToBytes-differs-from-Bytes", fmt.Sprintf("ElementsToBytes[%d] of %d != Bytes() (%s)", i, n, cls), nil)
			break
		}
		if want := ref.Serialize(shad[i]); cb[i] != want {
			c.Fail("ElementsToBytes-differs-from-reference", fmt.Sprintf("ElementsToBytes[%d] of %d != reference (%s)", i, n, cls), nil)
			break
		}
		us := elems[i].BytesUncompressedTrusted()
		if ub[i] != us {
			c.Fail("BatchToBytesUncompressed-differs-from-single", fmt.Sprintf("BatchToBytesUncompressed[%d] of %d != BytesUncompressedTrusted() (%s)", i, n, cls), nil)
			break
		}
		// the 64 bytes must be x||y of a representative of the element's class
		ua := ref.Affine{X: ref.FromBE(us[:32]), Y: ref.FromBE(us[32:])}
		if ua.X.Cmp(ref.P) >= 0 || ua.Y.Cmp(ref.P) >= 0 || !ua.OnCurve() || !ref.ClassEqualAffine(ua, shad[i].Affine()) {
			c.Fail("uncompressed-not-a-representative", fmt.Sprintf("BytesUncompressedTrusted of element %d is not x||y of a point of the element's class", i), nil)
			break
		}
		var sm fr.Element
		sm.SetUint64(uint64(i) + 77)
		elems[i].MapToScalarField(&sm)
		if rs[i] != sm || FrToBig(&sm).Cmp(ref.MapToScalarField(shad[i])) != 0 {
			c.Fail("BatchMapToScalarField-differs", fmt.Sprintf("BatchMapToScalarField[%d] of %d differs from the single variant or the reference (%s)", i, n, cls), nil)
			break
		}
		if *elems[i] != snap[i] {
			c.Fail("operand-modified/batch-serialiser", "a batch serialiser modified an element", nil)
			break
		}
		// trusted uncompressed round trip (sampled)
		if i < 3 || rng.Intn(16) == 0 {
			var back banderwagon.Element
			if err := back.SetBytesUncompressed(us[:], true); err != nil {
				c.Fail("trusted-decode-failed", "SetBytesUncompressed(trusted) failed on BytesUncompressedTrusted output: "+err.Error(), nil)
			} else {
				bp, ok2 := ElemToRef(&back)
				if !ok2 || !back.Equal(elems[i]) || !ref.ClassEqual(bp, shad[i]) {
					c.Fail("trusted-roundtrip-not-equal", "trusted uncompressed round trip is not Equal to the original", nil)
				}
			}
		}
	}
	c.Count("positions_compared", int64(n))
	c.EvalN("serialisers|"+cls, 3, n > 0)
}

func c19normalize(c *mon.Ctx, g *engine, rng *rand.Rand, n, pattern, w int) {
	one := fp.One()
	elems, shad, hasID := c19list(g, rng, n, pattern)
	cls := fmt.Sprintf("%s|ptr%d|id=%v|W=%d", lenClassW(n, w), pattern, hasID, w)
	// ---- error path first (on copies of the same list shape) ----
	if n > 0 {
		positions := []int{0, n - 1, n / 2, rng.Intn(n)}
		if n <= 8 {
			positions = positions[:0]
			for i := 0; i < n; i++ {
				positions = append(positions, i)
			}
		}
		for _, pos := range positions {
			for _, kind := range []int{0, 1} {
				el, _, _ := c19list(g, rng, n, pattern)
				var bad banderwagon.Element // all-zero
				if kind == 1 {
					X, Y, _ := g.e[2].VerifCoords()
					bad = banderwagon.VerifFromCoords(X, Y, fp.Zero())
				}
				el[pos] = &bad
				snap := make([]banderwagon.Element, n)
				for i := range el {
					snap[i] = *el[i]
				}
				var err error
				if p, st := mon.Try(func() { err = banderwagon.BatchNormalize(el) }); p != nil {
					c.Fail("panic/BatchNormalize", fmt.Sprintf("BatchNormalize panicked with an un-normalisable element at %d of %d: %v", pos, n, p), map[string]string{"stack": st})
					continue
				}
				if err == nil {
					c.Fail("no-error/BatchNormalize", fmt.Sprintf("BatchNormalize returned nil with an un-normalisable element (kind %d) at position %d of %d (%s)", kind, pos, n, cls), nil)
				}
				for i := range el {
					if *el[i] != snap[i] {
						c.Fail("modified-on-error/BatchNormalize", fmt.Sprintf("BatchNormalize failed but modified element %d of %d (bad element at %d, %s)", i, n, pos, cls), nil)
						break
					}
				}
				c.Count("batchnormalize_error_paths", 1)
				c.Eval(fmt.Sprintf("BatchNormalize-error|%s|badkind%d", cls, kind), true)
			}
		}
	}
	// ---- success path ----
	mon.SchedTake()
	err := banderwagon.BatchNormalize(elems)
	c.RecordOrders("parallel.task.start")
	if err != nil {
		c.Fail("error/BatchNormalize", fmt.Sprintf("BatchNormalize failed on %d valid elements (%s): %v", n, cls, err), nil)
		return
	}
	for i := range elems {
		_, _, Z := elems[i].VerifCoords()
		if Z != one {
			c.Fail("not-normalised/BatchNormalize", fmt.Sprintf("element %d of %d has Z != 1 after BatchNormalize (%s)", i, n, cls), nil)
			break
		}
		gp, ok := ElemToRef(elems[i])
		if !ok || !gp.Affine().OnCurve() || !ref.ClassEqual(gp, shad[i]) {
			c.Fail("changed-value/BatchNormalize", fmt.Sprintf("element %d of %d is no longer Equal to its former value after BatchNormalize (%s)", i, n, cls), nil)
			break
		}
	}
	c.Count("positions_compared", int64(n))
	c.Eval("BatchNormalize|"+cls, n > 0)
}

var c19kept = Retainer{Cap: 24}
