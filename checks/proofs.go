package checks

import (
	"bytes"
	"crypto/sha256"
	"fmt"
	"math/big"
	"math/rand"

	multiproof "github.com/crate-crypto/go-ipa"
	"github.com/crate-crypto/go-ipa/bandersnatch/fr"
	"github.com/crate-crypto/go-ipa/banderwagon"
	"github.com/crate-crypto/go-ipa/common"

	"verif/ref"
)

// ---- shared generators for the proof monitors (C01-C04, C12, C13) ----

type polyDef struct {
	kind string
	v    []*big.Int
	lv   []fr.Element
	comm banderwagon.Element // library commitment (Commit itself is C05's subject)
	cref ref.Point           // the same point read through raw coordinates
}

func makePoly(rng *rand.Rand, kind int) ([]*big.Int, string) {
	v := make([]*big.Int, 256)
	for i := range v {
		v[i] = new(big.Int)
	}
	rm1 := new(big.Int).Sub(ref.R, bigOne)
	name := ""
	switch kind % 11 {
	case 9:
		name = "linear-limb-slope"
		es := edgeScalars()
		a, b := es[rng.Intn(len(es))], es[len(es)-30+rng.Intn(30)%len(es)]
		if rng.Intn(2) == 0 {
			b = new(big.Int).Sub(new(big.Int).Lsh(bigOne, uint(64*(1+rng.Intn(3)))), bigOne)
		}
		for i := range v {
			v[i] = ref.AddR(a, ref.MulR(b, big.NewInt(int64(i))))
		}
	case 10:
		name = "limb-edge-values"
		es := edgeScalars()
		for i := range v {
			v[i] = es[rng.Intn(len(es))]
		}
	case 0:
		name = "random"
		for i := range v {
			v[i] = randBig(rng, ref.R)
		}
	case 1:
		name = "zero"
	case 2:
		name = "constant"
		k := randScalar(rng)
		for i := range v {
			v[i] = k
		}
	case 3:
		name = "unit"
		v[[]int{0, 1, 127, 128, 255, rng.Intn(256)}[rng.Intn(6)]] = big.NewInt(1)
	case 4:
		name = "all-r-1"
		for i := range v {
			v[i] = rm1
		}
	case 5:
		name = "sparse"
		for i := 0; i < 256; i += 1 + rng.Intn(60) {
			v[i] = randScalar(rng)
		}
	case 6:
		name = "small-values"
		for i := range v {
			v[i] = big.NewInt(int64(rng.Intn(1000)))
		}
	case 7:
		name = "edge-values"
		for i := range v {
			v[i] = randScalar(rng)
		}
	default:
		name = "low-degree"
		a, b := randBig(rng, ref.R), randBig(rng, ref.R)
		for i := range v {
			v[i] = ref.AddR(a, ref.MulR(b, big.NewInt(int64(i))))
		}
	}
	return v, name
}

func makePolys(env *Env, rng *rand.Rand, m int, forceKinds ...int) []*polyDef {
	out := make([]*polyDef, m)
	for i := range out {
		kind := rng.Intn(11)
		if rng.Intn(3) == 0 {
			kind = 0
		}
		if i < len(forceKinds) {
			kind = forceKinds[i]
		}
		v, name := makePoly(rng, kind)
		pd := &polyDef{kind: name, v: v, lv: toFr(v)}
		pd.comm = env.Conf.Commit(pd.lv)
		pd.cref, _ = ElemToRef(&pd.comm)
		out[i] = pd
	}
	return out
}

var indexPatternNames = []string{"all-equal", "consecutive", "0-and-255", "3-and-200", "only-255", "all-256", "descending", "random-repeats", "two-adjacent", "random-distinct"}

func genIndices(rng *rand.Rand, n, pattern int) []uint8 {
	zs := make([]uint8, n)
	base := rng.Intn(256)
	for i := range zs {
		switch pattern % len(indexPatternNames) {
		case 0:
			zs[i] = uint8(base)
		case 1:
			zs[i] = uint8((base + i) % 256)
		case 2:
			zs[i] = []uint8{0, 255}[i%2]
		case 3:
			zs[i] = []uint8{3, 200}[i%2]
		case 4:
			zs[i] = 255
		case 5:
			zs[i] = uint8(i % 256)
		case 6:
			zs[i] = uint8(255 - i%256)
		case 7:
			zs[i] = uint8(rng.Intn(8) * 37 % 256)
		case 8:
			zs[i] = uint8(base%255 + i%2)
		default:
			zs[i] = uint8(rng.Intn(256))
		}
	}
	return zs
}

// statement is one multiproof instance in library and reference form.
type statement struct {
	label   string
	polys   []*polyDef
	pidx    []int // opening i uses polys[pidx[i]]
	zs      []uint8
	repKind string
	ptrKind string
	idxKind string
	// library side
	Cs []*banderwagon.Element
	fs [][]fr.Element
	ys []*fr.Element
}

func (s *statement) n() int { return len(s.zs) }

var labelKinds = []string{"empty", "vt", "test", "2kB", "random-bytes", "around-a-power-of-two", "64kB+"}

func genLabel(rng *rand.Rand) (string, string) {
	k := rng.Intn(len(labelKinds))
	switch k {
	case 0:
		return "", labelKinds[k]
	case 1:
		return "vt", labelKinds[k]
	case 2:
		return "test", labelKinds[k]
	case 3:
		return string(bytes.Repeat([]byte("verkle-label-"), 160)), labelKinds[k]
	case 5:
		// lengths around the hash block size and around 1 kB / 4 kB (buffer sizes)
		b := make([]byte, []int{55, 56, 64, 1024, 4096}[rng.Intn(5)]+rng.Intn(3)-1)
		rng.Read(b)
		return string(b), labelKinds[k]
	case 6:
		b := make([]byte, 65536+rng.Intn(5000))
		rng.Read(b)
		return string(b), labelKinds[k]
	default:
		b := make([]byte, 1+rng.Intn(40))
		rng.Read(b)
		return string(b), labelKinds[k]
	}
}

// genStatement builds an honest statement with n openings.
func genStatement(env *Env, rng *rand.Rand, n, idxPattern int, polys []*polyDef) *statement {
	s := &statement{polys: polys, zs: genIndices(rng, n, idxPattern), idxKind: indexPatternNames[idxPattern%len(indexPatternNames)]}
	s.label, _ = genLabel(rng)
	s.pidx = make([]int, n)
	for i := range s.pidx {
		s.pidx[i] = rng.Intn(len(polys))
	}
	s.materialise(rng, rng.Intn(4), rng.Intn(3))
	return s
}

// materialise creates the library-side argument objects with a commitment
// representation pattern (0 Z=1, 1 rescaled, 2 sign-flipped, 3 mixed) and a
// pointer pattern (0 fresh objects, 1 shared pointer per polynomial, 2 mixed).
func (s *statement) materialise(rng *rand.Rand, rep, ptr int) {
	n := s.n()
	s.repKind = []string{"Z=1", "rescaled", "sign-flipped", "mixed"}[rep%4]
	s.ptrKind = []string{"fresh", "shared-pointers", "mixed"}[ptr%3]
	s.Cs = make([]*banderwagon.Element, n)
	s.fs = make([][]fr.Element, n)
	s.ys = make([]*fr.Element, n)
	shared := map[int]*banderwagon.Element{}
	for i := 0; i < n; i++ {
		pd := s.polys[s.pidx[i]]
		mk := func() *banderwagon.Element {
			kind := 0
			switch rep % 4 {
			case 1:
				kind = 2
			case 2:
				kind = 3
			case 3:
				kind = rng.Intn(NumRepKinds)
			}
			e := Rerepresent(&pd.comm, kind, rng)
			return &e
		}
		usePtr := ptr%3 == 1 || (ptr%3 == 2 && rng.Intn(2) == 0)
		if usePtr {
			if shared[s.pidx[i]] == nil {
				shared[s.pidx[i]] = mk()
			}
			s.Cs[i] = shared[s.pidx[i]]
		} else {
			s.Cs[i] = mk()
		}
		// polynomial slices: fresh copies or shared backing arrays
		if usePtr || i >= 2048 {
			s.fs[i] = pd.lv // (beyond 2048 openings always shared: 8 kB per private copy)
		} else {
			s.fs[i] = append([]fr.Element(nil), pd.lv...)
		}
		y := pd.lv[s.zs[i]]
		s.ys[i] = &y
		// with shared pointers, openings of the same polynomial at the same index also share the claimed-value pointer
		if usePtr {
			for j := 0; j < i; j++ {
				if s.pidx[j] == s.pidx[i] && s.zs[j] == s.zs[i] && s.Cs[j] == s.Cs[i] {
					s.ys[i] = s.ys[j]
					break
				}
			}
		}
	}
}

func (s *statement) refCs() []ref.Point {
	out := make([]ref.Point, s.n())
	for i := range out {
		out[i] = s.polys[s.pidx[i]].cref
	}
	return out
}

func (s *statement) refYs() []*big.Int {
	out := make([]*big.Int, s.n())
	for i := range out {
		out[i] = s.polys[s.pidx[i]].v[s.zs[i]]
	}
	return out
}

func (s *statement) refZs() []int {
	out := make([]int, s.n())
	for i := range out {
		out[i] = int(s.zs[i])
	}
	return out
}

func (s *statement) refFs() [][]*big.Int {
	out := make([][]*big.Int, s.n())
	for i := range out {
		out[i] = s.polys[s.pidx[i]].v
	}
	return out
}

func (s *statement) describe() map[string]interface{} {
	kinds := map[string]int{}
	for _, i := range s.pidx {
		kinds[s.polys[i].kind]++
	}
	zs := s.zs
	if len(zs) > 24 {
		zs = zs[:24]
	}
	lab := s.label
	if len(lab) > 24 {
		lab = lab[:24] + "..."
	}
	return map[string]interface{}{"n": s.n(), "label": fmt.Sprintf("%q", lab), "label_bytes": len(s.label), "index_pattern": s.idxKind, "zs_prefix": fmt.Sprint(zs), "polynomial_kinds": kinds,
		"commitment_representation": s.repKind, "pointer_pattern": s.ptrKind, "distinct_polynomials": len(s.polys)}
}

func distinctIdx(zs []uint8) int {
	m := map[uint8]bool{}
	for _, z := range zs {
		m[z] = true
	}
	return len(m)
}

// prove runs the library prover; returns proof, serialised bytes and the
// prover transcript's next challenge.
func (s *statement) prove(env *Env) (*multiproof.MultiProof, []byte, *big.Int, error) {
	tr := common.NewTranscript(s.label)
	pr, err := multiproof.CreateMultiProof(tr, env.Conf, s.Cs, s.fs, s.zs)
	if err != nil {
		return nil, nil, nil, err
	}
	var buf bytes.Buffer
	if err := pr.Write(&buf); err != nil {
		return pr, nil, nil, fmt.Errorf("Write: %w", err)
	}
	ch := tr.ChallengeScalar([]byte("state"))
	return pr, buf.Bytes(), FrToBig(&ch), nil
}

// verify runs the library verifier on a fresh transcript.
func (s *statement) verify(env *Env, pr *multiproof.MultiProof) (bool, error, *big.Int) {
	tr := common.NewTranscript(s.label)
	ok, err := multiproof.CheckMultiProof(tr, env.Conf, pr, s.Cs, s.ys, s.zs)
	ch := tr.ChallengeScalar([]byte("state"))
	return ok, err, FrToBig(&ch)
}

// parseRefProof decodes 576 proof bytes with the reference decoder.
func parseRefProof(b []byte) (*ref.MultiProof, error) {
	if len(b) != 576 {
		return nil, fmt.Errorf("length %d", len(b))
	}
	pts := make([]ref.Point, 17)
	for i := range pts {
		a, err := ref.Deserialize(b[32*i : 32*i+32])
		if err != nil {
			return nil, fmt.Errorf("point %d: %v", i, err)
		}
		pts[i] = ref.FromAffine(a)
	}
	a := ref.FromLE(b[544:])
	if a.Cmp(ref.R) >= 0 {
		return nil, fmt.Errorf("scalar not canonical")
	}
	return &ref.MultiProof{D: pts[0], IPA: &ref.IPAProof{L: pts[1:9], R: pts[9:17], A: a}}, nil
}

func sha(b []byte) string {
	h := sha256.Sum256(b)
	return hx(h[:8])
}

// sizesAround returns opening counts around the multiples of the worker count.
func sizesAround(w int) []int {
	s := []int{1, 2, 3, w - 1, w, w + 1, 2*w - 1, 2 * w, 2*w + 1, 3*w + 5}
	var out []int
	for _, n := range s {
		if n >= 1 {
			out = append(out, n)
		}
	}
	return out
}

func nClassW(n, w int) string {
	switch {
	case n == 1:
		return "n=1"
	case n < w:
		return "n<W"
	case n == w:
		return "n=W"
	case n%w == 0:
		return "n=kW"
	case n%w == 1:
		return "n=kW+1"
	case n%w == w-1:
		return "n=kW-1"
	default:
		return "n-other"
	}
}
