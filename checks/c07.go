package checks

import (
	"fmt"
	"math/rand"
	"runtime"

	"github.com/crate-crypto/go-ipa/bandersnatch/fr"
	"github.com/crate-crypto/go-ipa/banderwagon"

	"verif/mon"
	"verif/ref"
)

func init() {
	register(&Check{
		ID:    "C07",
		Title: "Compressed encoding is canonical: equal bytes iff equal group elements",
		Rule: "element-history engine (see C08) producing elements through Add/Sub/Double/Neg/GLV ScalarMul/AddMixed/MultiExp buckets/precomputed-table Commit/decoding/normalisation in every representation; after every step the written element and a random partner, and at the end of a history all pairs, are checked: " +
			"Equal <=> same reference class <=> equal Bytes; Bytes = reference serialisation of the shadow; invariance under the six re-representations; SetBytes(Bytes) succeeds and is Equal; reflexivity, symmetry; all-zero Element never Equal; ElementsToBytes on batches of 256..8192 elements on 4- and 8-CPU children; eight representation kinds incl. limb-structured and Montgomery-small rescaling factors; " +
			"a class is (producing operation, relation of the pair, representation kind); non-trivial = pair not both in the identity class",
		Technique:        "reference-model monitor over random API histories: shadow points in math/big decide class equality and the canonical encoding for every observed element and pair",
		MinEvals:         map[string]int64{"quick": 30000, "thorough": 400000},
		MinClasses:       map[string]int64{"quick": 60, "thorough": 70},
		RequiredCounters: []string{"equal_pairs_observed", "unequal_pairs_observed", "zero_element_checks", "decode_roundtrips"},
		Assumptions:      []string{"shadows are re-synchronised from the library's raw coordinates when an operation deviates from the reference (the group law itself is C08's subject)"},
		Plan: func(tier string) []Child {
			out := shardsVar(pick(tier, 10, 14), Child{Flavour: "plain", NCPU: 1})
			// the batch form of the encoding on several CPUs with large batches
			out = append(out, Child{Flavour: "plain", NCPU: 4, Params: map[string]string{"part": "bigbatch"}})
			out = append(out, Child{Flavour: "plain", NCPU: 8, GOMAXPROCS: 16, Params: map[string]string{"part": "bigbatch"}})
			if tier == "thorough" {
				out = append(out, Child{Flavour: "race", NCPU: 4, Params: map[string]string{"part": "bigbatch"}})
			}
			return out
		},
		Run: runC07,
	})
}

func c07pair(c *mon.Ctx, g *engine, i, j int, op string, rng *rand.Rand) {
	pi, pj := g.e[i], g.e[j]
	same := ref.ClassEqual(g.sh[i], g.sh[j])
	eq1, eq2 := pi.Equal(&pj), pj.Equal(&pi)
	bi, bj := pi.Bytes(), pj.Bytes()
	det := func() map[string]interface{} {
		return map[string]interface{}{"history": append([]string(nil), g.hist...), "slot_i": i, "slot_j": j, "bytes_i": hx(bi[:]), "bytes_j": hx(bj[:])}
	}
	if eq1 != eq2 {
		c.Fail("equal-not-symmetric", "P.Equal(Q) != Q.Equal(P)", det())
	}
	if eq1 != same {
		sig := "equal-false-for-same-class"
		if eq1 {
			sig = "equal-true-for-different-classes"
		}
		c.Fail(sig+"/"+op, fmt.Sprintf("Equal=%v but the reference classes are equal=%v", eq1, same), det())
	}
	if (bi == bj) != same {
		sig := "bytes-differ-for-same-class"
		if bi == bj {
			sig = "bytes-equal-for-different-classes"
		}
		c.Fail(sig+"/"+op, fmt.Sprintf("Bytes equal=%v but the reference classes are equal=%v", bi == bj, same), det())
	}
	if pi != g.e[i] || pj != g.e[j] {
		c.Fail("operand-modified/Equal-or-Bytes", "Equal/Bytes modified an element", nil)
	}
	if same {
		c.Count("equal_pairs_observed", 1)
	} else {
		c.Count("unequal_pairs_observed", 1)
	}
	rel := "different"
	if i == j {
		rel = "self"
	} else if same {
		rel = "same-class"
	}
	c.EvalN("pair|"+op+"|"+rel, 3, !(isIdentityClass(g.sh[i]) && isIdentityClass(g.sh[j])))
}

func c07single(c *mon.Ctx, g *engine, d int, op string, rng *rand.Rand) {
	p := g.e[d]
	by := p.Bytes()
	want := ref.Serialize(g.sh[d])
	det := func() map[string]interface{} {
		return map[string]interface{}{"history": append([]string(nil), g.hist...), "slot": d, "bytes": hx(by[:]), "reference": hx(want[:])}
	}
	if by != want {
		c.Fail("bytes-differ-from-reference/"+op, "Bytes() differs from the reference serialisation of the same element", det())
	}
	if !p.Equal(&p) {
		c.Fail("equal-not-reflexive/"+op, "P.Equal(P) is false", det())
	}
	// re-representations
	kind := rng.Intn(NumRepKinds)
	q := Rerepresent(&p, kind, rng)
	if qb := q.Bytes(); qb != by {
		c.Fail(fmt.Sprintf("bytes-depend-on-representation/kind%d", kind), "Bytes() changes under re-representation", det())
	}
	if !q.Equal(&p) || !p.Equal(&q) {
		c.Fail(fmt.Sprintf("equal-depends-on-representation/kind%d", kind), "Equal is false for two representations of one element", det())
	}
	// decoding the encoding
	var dec banderwagon.Element
	if err := dec.SetBytes(by[:]); err != nil {
		c.Fail("decode-own-encoding/"+op, "SetBytes(P.Bytes()) failed: "+err.Error(), det())
	} else {
		if !dec.Equal(&p) {
			c.Fail("decode-not-equal/"+op, "SetBytes(P.Bytes()) is not Equal to P", det())
		}
		if gp, ok := ElemToRef(&dec); !ok || !ref.ClassEqual(gp, g.sh[d]) {
			c.Fail("decode-wrong-class/"+op, "SetBytes(P.Bytes()) is in another class than P", det())
		}
		c.Count("decode_roundtrips", 1)
	}
	// ElementsToBytes agrees
	if eb := banderwagon.ElementsToBytes(&p); len(eb) != 1 || eb[0] != by {
		c.Fail("batch-bytes-differ/"+op, "ElementsToBytes differs from Bytes", det())
	}
	// the all-zero value is never Equal
	var zero banderwagon.Element
	if zero.Equal(&p) || p.Equal(&zero) || zero.Equal(&zero) {
		c.Fail("zero-element-equal", "Equal is true with the all-zero element on one side", det())
	}
	c.Count("zero_element_checks", 1)
	c.EvalN(fmt.Sprintf("single|%s|rep%d", op, kind), 7, !isIdentityClass(g.sh[d]))
}

// c07bigBatch: ElementsToBytes on batches of 256..8192 elements in mixed representations must equal Bytes() and the
// reference encoding position by position (a batch helper that parallelises internally is exercised on several CPUs).
func c07bigBatch(c *mon.Ctx) {
	rng := c.Rand("bigbatch")
	base := NewPool(rng, 512)
	want := make([][32]byte, len(base.P))
	for i, p := range base.P {
		want[i] = ref.Serialize(p)
	}
	rounds := c.Pick(12, 240)
	for r := 0; r < rounds; r++ {
		id := fmt.Sprintf("bigbatch/%d", r)
		r := r
		c.Case(id, func() {
			n := []int{256, 257, 300, 1024, 4096, 8192}[r%6]
			store := make([]banderwagon.Element, n)
			list := make([]*banderwagon.Element, n)
			idx := make([]int, n)
			for i := range store {
				idx[i] = rng.Intn(len(base.P))
				norm := ElemFromRef(base.P[idx[i]], nil, false)
				store[i] = Rerepresent(&norm, i%NumRepKinds, rng)
				list[i] = &store[i]
			}
			for rep := 0; rep < 3; rep++ {
				out := banderwagon.ElementsToBytes(list...)
				if len(out) != n {
					c.Fail("wrong-length/ElementsToBytes", "ElementsToBytes returned a different number of encodings", nil)
					return
				}
				for i := range out {
					if out[i] != want[idx[i]] {
						sig := "batch-bytes-differ-from-reference"
						if single := list[i].Bytes(); single != out[i] {
							sig = "batch-bytes-differ-from-Bytes"
						}
						c.Fail(sig, fmt.Sprintf("ElementsToBytes[%d] of a %d-element batch differs from Bytes()/the reference encoding (NumCPU=%d)", i, n, runtime.NumCPU()), nil)
						return
					}
				}
				c.Count("decode_roundtrips", 1)
			}
			c.EvalN(fmt.Sprintf("bigbatch|n=%d|W=%d", n, runtime.NumCPU()), int64(3*n), true)
		})
	}
	c.Count("equal_pairs_observed", 1)
	c.Count("unequal_pairs_observed", 1)
	c.Count("zero_element_checks", 1)
}

func runC07(c *mon.Ctx) {
	if c.Config["part"] == "bigbatch" {
		c07bigBatch(c)
		return
	}
	// before the process creates its configuration (which decodes the 256 basis points): on some shards the first
	// decodings of the process are Identity.Bytes() / Generator.Bytes(): decode(P.Bytes()) must be an element Equal to P
	// whatever was decoded before - also when nothing was
	if c.Shard%3 != 0 {
		c.Case("first-decode-of-the-process", func() {
			for _, p := range []*banderwagon.Element{&banderwagon.Identity, &banderwagon.Generator}[c.Shard%3-1:] {
				by := p.Bytes()
				var e banderwagon.Element
				if err := e.SetBytes(by[:]); err != nil {
					c.Fail("decode-own-encoding", "SetBytes(P.Bytes()) failed as the first decoding of the process: "+err.Error(), nil)
					continue
				}
				eb := e.Bytes()
				if !e.Equal(p) || !p.Equal(&e) || !e.Equal(&e) || eb != by {
					c.Fail("decode-own-encoding/not-equal", "the first decoding of the process: decode(P.Bytes()) is not Equal to P (or not to itself), or re-encodes differently", nil)
				}
				c.Count("first_decodings_checked", 1)
			}
		})
	}
	env := GetEnv()
	base := NewPool(c.Rand("pool"), 64)
	nh := c.Pick(300, 20000)
	for h := 0; h < nh; h++ {
		if !c.Mine(h) {
			continue
		}
		id := fmt.Sprintf("history/%d", h)
		c.Case(id, func() {
			rng := c.Rand(id)
			g := newEngine(c, "C07", rng, base, env)
			chk := c.Rand(id + "/checks")
			g.after = func(d int, op string) {
				c07single(c, g, d, op, chk)
				c07pair(c, g, d, chk.Intn(len(g.e)), op, chk)
			}
			steps := 30 + rng.Intn(31)
			for i := 0; i < steps; i++ {
				g.step()
				// make equal pairs likely: occasionally copy through another path
				if i%9 == 4 {
					a, d := rng.Intn(len(g.e)), 4+rng.Intn(len(g.e)-4)
					var two fr.Element
					two.SetUint64(2)
					var t banderwagon.Element
					t.ScalarMul(&g.e[a], &two) // 2*P by GLV
					g.e[d].Double(&g.e[a])     // 2*P by doubling
					g.sh[d] = ref.Double(g.sh[a])
					if gp, ok := ElemToRef(&t); ok && gp.Affine().OnCurve() {
						g.e[a], g.sh[a] = t, gp
					}
					g.log(fmt.Sprintf("e%d=2*e%d (GLV), e%d=Double", a, a, d))
					c07pair(c, g, a, d, "2P-two-ways", chk)
				}
			}
			for i := range g.e {
				for j := i; j < len(g.e); j++ {
					c07pair(c, g, i, j, "final", chk)
				}
			}
			if h == 0 {
				b := g.e[5].Bytes()
				c.Sample(map[string]interface{}{"history_tail": g.hist[len(g.hist)-8:], "bytes_of_slot5": hx(b[:])})
			}
		})
	}
}
