package checks

import (
	"bytes"
	"fmt"
	"math/big"
	"math/rand"
	"runtime"

	multiproof "github.com/crate-crypto/go-ipa"
	"github.com/crate-crypto/go-ipa/bandersnatch/fr"
	"github.com/crate-crypto/go-ipa/banderwagon"
	"github.com/crate-crypto/go-ipa/common"

	"verif/mon"
	"verif/ref"
)

func init() {
	register(&Check{
		ID:    "C01",
		Title: "Multiproof completeness: every honest set of openings verifies",
		Rule: "honest opening sets: n in {1,2,3,W-1,W,W+1,2W-1,2W,2W+1,3W+5,100,257,1000, 255/256/512 at one or two evaluation points, 4097 and 8193 on some children (+5000, 16385 and 65537 thorough)} for the child's NumCPU W; ten index patterns (all equal, consecutive, {0,255}, {3,200}, only 255, all 256 indices, descending, random with repeats, two adjacent, random); polynomials zero/constant/unit/all r-1/sparse/small/edge/low-degree/random incl. equal polynomials; " +
			"commitments Z=1 / rescaled / sign-flipped / mixed, fresh objects / shared pointers / mixed; labels empty/usual/2kB/random bytes; children under NumCPU x GOMAXPROCS with H7 delays permuting worker arrival; each case: CreateMultiProof, CheckMultiProof on a fresh transcript, transcript states compared, commitments still in their class; the decoded proof verified again with the verifier's own argument objects (mixed representations); in a third of the cases error-path verifications (malformed proofs/statements) precede the honest one; a seeded sample re-verified by the reference verifier from the serialised bytes; " +
			"a class is (n relative to W, #distinct indices class, index pattern, representation, pointer pattern, NumCPU, GOMAXPROCS); non-trivial = n >= 2",
		Technique:        "runtime monitor on prover+verifier of the real code under varied NumCPU/GOMAXPROCS with hook-injected delays and arrival-order recording; independent reference verifier (math/big) on a sample",
		MinEvals:         map[string]int64{"quick": 600, "thorough": 4000},
		MinClasses:       map[string]int64{"quick": 300, "thorough": 2000},
		RequiredCounters: []string{"proofs_verified_by_library", "proofs_verified_by_reference", "hook.multiproof.group.send", "cases_with_two_or_more_distinct_indices", "cases_with_n_not_multiple_of_W", "verified_with_verifier_own_objects", "error_path_verifications_before_honest_one"},
		Assumptions:      []string{"commitments are produced by the library's Commit (its correctness is C05's subject)", "NumCPU above 16 cannot be produced here; the shape classes n<W, n=W, n=kW, n=kW+-1 are all reached with W<=16"},
		Plan: func(tier string) []Child {
			var out []Child
			if tier == "quick" {
				cfg := [][2]int{{1, 1}, {2, 4}, {3, 2}, {5, 5}, {8, 1}, {16, 16}, {4, 64}}
				for i, k := range cfg {
					out = append(out, Child{Flavour: "plain", NCPU: k[0], GOMAXPROCS: k[1], Params: map[string]string{"sched": fmt.Sprint(1 + i%2)}})
				}
				return out
			}
			for w := 1; w <= 16; w++ {
				for _, g := range []int{1, 2, 4, 16} {
					if (w+g)%2 == 0 || w <= 3 || w == 16 {
						out = append(out, Child{Flavour: "plain", NCPU: w, GOMAXPROCS: g, Params: map[string]string{"sched": fmt.Sprint((w + g) % 3)}})
					}
				}
			}
			out = append(out, Child{Flavour: "race", NCPU: 4, GOMAXPROCS: 4, Params: map[string]string{"sched": "1", "race": "1"}})
			out = append(out, Child{Flavour: "plain", NCPU: 4, GOMAXPROCS: 64, Params: map[string]string{"sched": "1"}}, Child{Flavour: "plain", NCPU: 7, GOMAXPROCS: 128, Params: map[string]string{"sched": "2"}})
			return out
		},
		Run: runC01,
	})
}

func runC01(c *mon.Ctx) {
	env := GetEnv()
	w := runtime.NumCPU()
	gmp := runtime.GOMAXPROCS(0)
	mode := 1
	fmt.Sscan(c.Config["sched"], &mode)
	mon.InstallSched(mode, c.Seed)
	race := c.Config["race"] == "1"
	cfgTag := fmt.Sprintf("W=%d|P=%d", w, gmp)
	prng := c.Rand("polys/" + cfgTag)
	polys := makePolys(env, prng, 10, 0, 1, 2, 3, 4, 5)
	constPolys := makePolys(env, prng, 3, 1, 2, 4) // zero, constant, all r-1
	sizes := append(sizesAround(w), 100, 129, 257, 1000, 1025)
	sizes = append(sizes, 255, 256, 512) // with the one/two-point index patterns: exactly 255/256 openings at one evaluation point
	if w%4 == 3 || (w == 16 && gmp == 4) {
		sizes = append(sizes, 4097) // beyond 4096 openings (powers of r, chunked helpers), not a multiple of the task counts
	}
	if w == 5 {
		sizes = append(sizes, 8193) // one past the next round count (2^13): a verifier or prover that works in blocks of 8192 has a partial last block
	}
	if c.Thorough() && w == 10 && gmp >= 4 {
		sizes = append(sizes, 16385)
	}
	if gmp > 16 {
		sizes = []int{1, 2, 3, 7, 47, 49, 127, 129, 255, 321, 1025} // odd sizes around the MSM window thresholds: GOMAXPROCS far above NumCPU
	}
	if c.Thorough() && w%5 == 1 {
		sizes = append(sizes, 5000)
	}
	if c.Thorough() && (w == 6 || w == 13) && gmp >= 4 {
		sizes = append(sizes, 65537) // beyond 16-bit counts
	}
	if race {
		sizes = []int{1, 2, 3, 4, 5, 9, 17, 100}
	}
	refBudget := c.Pick(7, 12)
	caseNo := 0
	for _, n := range sizes {
		pats := []int{0, 1, 2, 3, 4, 5, 6, 7, 8, 9}
		if n >= 1000 {
			pats = []int{5, 7, 9}
		}
		if n == 255 || n == 256 || n == 512 {
			pats = []int{0, 2, 4}
		}
		if n == 4097 || n == 8193 || n == 16385 || n == 65537 {
			pats = []int{7}
		}
		for _, pat := range pats {
			caseNo++
			id := fmt.Sprintf("%s/n%d/%s", cfgTag, n, indexPatternNames[pat])
			n, pat, caseNo := n, pat, caseNo
			c.Case(id, func() {
				rng := c.Rand(id)
				mon.SchedReseed(rng.Uint64())
				// sometimes only one or two polynomials so that equal polynomials / shared commitments dominate
				ps := polys
				if rng.Intn(4) == 0 {
					k := 1 + rng.Intn(2)
					ps = polys[rng.Intn(len(polys)-k):][:k]
				}
				if caseNo%7 == 5 {
					ps = constPolys // every opened polynomial is constant: g(X) is identically zero, D is the identity
				}
				if caseNo%7 == 6 {
					ps = append(append([]*polyDef(nil), constPolys...), polys[0]) // constants mixed with one random polynomial
				}
				s := genStatement(env, rng, n, pat, ps)
				c01one(c, env, s, w, gmp, rng, caseNo, &refBudget)
			})
		}
	}
	c.Case("retained-results", func() { c01kept.Flush(c) })
}

func c01one(c *mon.Ctx, env *Env, s *statement, w, gmp int, rng *rand.Rand, caseNo int, refBudget *int) {
	det := s.describe()
	det["numcpu"], det["gomaxprocs"] = w, gmp
	mon.SchedTake()
	pr, pbytes, pch, err := s.prove(env)
	c.RecordOrders("multiproof.group.send")
	d := distinctIdx(s.zs)
	dc := "1"
	switch {
	case d >= 200:
		dc = "200+"
	case d > 2:
		dc = "3+"
	case d == 2:
		dc = "2"
	}
	cls := fmt.Sprintf("%s|idx=%s(%s)|rep=%s|ptr=%s|W=%d|P=%d", nClassW(s.n(), w), s.idxKind, dc, s.repKind, s.ptrKind, w, gmp)
	defer c.Eval(cls, s.n() >= 2)
	if d >= 2 {
		c.Count("cases_with_two_or_more_distinct_indices", 1)
	}
	if s.n()%w != 0 {
		c.Count("cases_with_n_not_multiple_of_W", 1)
	}
	if err != nil {
		c.Fail("prover-error", fmt.Sprintf("CreateMultiProof failed on an honest opening set (%s): %v", cls, err), det)
		return
	}
	// commitments may be re-normalised but must stay in their class
	for i, cp := range s.Cs {
		g, ok := ElemToRef(cp)
		if !ok || !ref.ClassEqual(g, s.polys[s.pidx[i]].cref) {
			c.Fail("commitment-changed-by-prover", fmt.Sprintf("commitment %d is no longer Equal to its former value after CreateMultiProof (%s)", i, cls), det)
			break
		}
	}
	// history: verifications that end in an error (malformed proof / statement shapes) come first in a third of the cases;
	// their outcome is not judged here, only what they leave behind
	if caseNo%3 == 1 {
		c01poison(env, s, pr, rng)
		c.Count("error_path_verifications_before_honest_one", 1)
	}
	ok, verr, vch := s.verify(env, pr)
	switch {
	case verr != nil:
		c.Fail("verifier-error", fmt.Sprintf("CheckMultiProof returned an error on the honest proof (%s): %v", cls, verr), det)
	case !ok:
		c.Fail("honest-proof-rejected", fmt.Sprintf("CheckMultiProof rejected the proof CreateMultiProof just produced (%s)", cls), det)
	default:
		c.Count("proofs_verified_by_library", 1)
		if pch.Cmp(vch) != 0 {
			c.Fail("transcript-states-differ", fmt.Sprintf("prover and verifier transcripts yield different next challenges (%s)", cls), det)
		}
	}
	// proving again with the very same argument objects (commitments now normalised in place) must give the same bytes
	if s.n() <= 64 && caseNo%3 == 0 {
		if _, pbytes2, _, err2 := s.prove(env); err2 != nil || string(pbytes2) != string(pbytes) {
			c.Fail("second-proof-with-same-objects-differs", fmt.Sprintf("calling CreateMultiProof a second time with the same argument objects gives err=%v / different bytes (%s)", err2, cls), det)
		}
		c.Count("reproved_with_same_objects", 1)
	}
	// a deserialised copy must verify too
	var pr2 multiproof.MultiProof
	if err := pr2.Read(newBytesReader(pbytes)); err != nil {
		c.Fail("honest-proof-not-decodable", "the serialised honest proof cannot be read back: "+err.Error(), det)
	} else if ok2, err2, _ := s.verify(env, &pr2); !ok2 || err2 != nil {
		c.Fail("decoded-honest-proof-rejected", fmt.Sprintf("the decoded honest proof is rejected (%s)", cls), det)
	} else {
		// a verifier has its own argument objects: commitments in any mix of representations (the prover normalised its
		// own in place), claimed values and pointers of its own
		v := *s
		ptrK := rng.Intn(3)
		if caseNo%4 == 2 {
			ptrK = 0
		}
		v.materialise(rng, 3, ptrK)
		if ptrK == 0 && caseNo%4 == 2 && len(v.Cs) >= 2 {
			// the verifier's commitments are projective representations whose Z coordinates multiply to one
			vals := make([]banderwagon.Element, len(v.Cs))
			for i := range vals {
				vals[i] = *v.Cs[i]
			}
			relateZ(vals, rng)
			for i := range vals {
				*v.Cs[i] = vals[i]
			}
			c.Count("verifier_commitments_with_related_z", 1)
		}
		snapCs := make([]banderwagon.Element, len(v.Cs))
		for i := range snapCs {
			snapCs[i] = *v.Cs[i]
		}
		if caseNo%5 == 1 && len(v.Cs) <= 40 && c01roBudget > 0 {
			// verification is a read-only use of the commitments: here they live on read-only memory pages
			c01roBudget -= len(v.Cs)
			for i := range v.Cs {
				if ro := roElem(v.Cs[i]); ro != nil {
					v.Cs[i] = ro
				}
			}
			c.Count("verifications_with_commitments_on_read_only_pages", 1)
		}
		var ok3 bool
		var err3 error
		var vch3 *big.Int
		if faulted, msg := callRO(func() { ok3, err3, vch3 = v.verify(env, &pr2) }); faulted {
			c.Fail("commitment-written-by-verifier", "CheckMultiProof wrote to a commitment (the commitments were on read-only pages) or panicked: "+msg, det)
			return
		}
		for i := range snapCs {
			if *v.Cs[i] != snapCs[i] {
				c.Fail("commitment-changed-by-verifier", fmt.Sprintf("CheckMultiProof changed the caller's commitment %d (not bitwise what it was)", i), det)
				break
			}
		}
		if !ok3 || err3 != nil {
			c.Fail("honest-proof-rejected/verifier-own-objects", fmt.Sprintf("the honest proof is rejected (ok=%v err=%v) when the verifier uses its own commitment objects in mixed representations (%s)", ok3, err3, cls), det)
		} else if vch3.Cmp(pch) != 0 {
			c.Fail("transcript-states-differ/verifier-own-objects", fmt.Sprintf("prover and verifier transcripts yield different next challenges when the verifier uses its own objects (%s)", cls), det)
		}
		c.Count("verified_with_verifier_own_objects", 1)
	}
	// independent verifier on a sample (small and large n alike)
	if (*refBudget > 0 && (caseNo%9 == 3 || s.n() == 3*w+5 && caseNo%2 == 0) && s.n() <= 300) || s.n() > 4000 || (s.n() >= 255 && s.n() <= 512 && caseNo%3 == 0 && w%3 == 1) {
		*refBudget--
		rp, err := parseRefProof(pbytes)
		if err != nil {
			c.Fail("reference-cannot-parse-proof", "the reference decoder rejects the honest proof bytes: "+err.Error(), det)
		} else {
			rok, rerr := env.Ref.VerifyMulti(ref.NewTranscript(s.label), rp, s.refCs(), s.refYs(), s.refZs(), caseNo%18 == 3)
			if rerr != nil || !rok {
				c.Fail("reference-verifier-rejects", fmt.Sprintf("the independent reference verifier rejects the library's proof (%s): prover and verifier of the library agree with each other but not with the specification", cls), det)
			} else {
				c.Count("proofs_verified_by_reference", 1)
			}
		}
	}
	if caseNo == 2 {
		c.Sample(det)
	}
	// the caller keeps the proof object: a dozen proofs and verifications later it must still serialise to the same bytes
	kept, orig := pr, pbytes
	c01kept.Keep(c, "CreateMultiProof", func() string {
		var w bytes.Buffer
		if err := kept.Write(&w); err != nil || !bytes.Equal(w.Bytes(), orig) {
			return fmt.Sprintf("a proof returned by an earlier CreateMultiProof no longer serialises to the same bytes (err=%v)", err)
		}
		return ""
	})
}

var c01kept = Retainer{Cap: 12}
var c01roBudget = 300

// c01poison calls the verifier with malformed proofs / statements derived from an honest one. Every call must come back
// (a panic is contained and not judged here - C02 judges the verifier's decisions); what matters is the next honest call.
func c01poison(env *Env, s *statement, pr *multiproof.MultiProof, rng *rand.Rand) {
	cp := func() *multiproof.MultiProof {
		b := &multiproof.MultiProof{D: pr.D}
		b.IPA.A_scalar = pr.IPA.A_scalar
		b.IPA.L = append([]banderwagon.Element(nil), pr.IPA.L...)
		b.IPA.R = append([]banderwagon.Element(nil), pr.IPA.R...)
		return b
	}
	for k := 0; k < 3; k++ {
		bad := cp()
		Cs, ys, zs := s.Cs, s.ys, s.zs
		switch rng.Intn(7) {
		case 0:
			bad.IPA.L, bad.IPA.R = bad.IPA.L[:7], bad.IPA.R[:7]
		case 1:
			bad.IPA.L, bad.IPA.R = append(bad.IPA.L, bad.IPA.L[0]), append(bad.IPA.R, bad.IPA.R[0])
		case 2:
			bad.IPA.L, bad.IPA.R = nil, nil
		case 3:
			bad.IPA.R = bad.IPA.R[:5]
		case 4:
			ys = ys[:len(ys)-1]
		case 5:
			zs = zs[:len(zs)-1]
		default:
			one := fr.One()
			bad.IPA.A_scalar.Add(&bad.IPA.A_scalar, &one) // a plain "false", no error
		}
		mon.Try(func() { multiproof.CheckMultiProof(common.NewTranscript(s.label), env.Conf, bad, Cs, ys, zs) })
	}
}
