package checks

import (
	"bytes"
	"errors"
	"fmt"
	"math/big"
	"math/rand"

	multiproof "github.com/crate-crypto/go-ipa"
	"github.com/crate-crypto/go-ipa/bandersnatch/fr"
	"github.com/crate-crypto/go-ipa/banderwagon"
	"github.com/crate-crypto/go-ipa/common"
	"github.com/crate-crypto/go-ipa/ipa"

	"verif/mon"
	"verif/ref"
)

func init() {
	register(&Check{
		ID:    "C02",
		Title: "Verifier soundness: accepts only what the reference verifier accepts",
		Rule: "honest (label, Cs, zs, ys, proof) tuples (n in {1,2,3,5,9,17,40}) from the library prover, then: every single-component perturbation to a different value (each C_i: +G, negate, double, another opening's C, identity, random point; z_i; y_i: +1, 0, negate, random; D; every L_j and R_j: +G, swap L_j<->R_j, swap rounds, identity; final scalar; order: swap/rotate distinct openings; number: drop, duplicate, append an honest opening; label: other, prefix, suffix), " +
			"splices of two honest proofs, re-representations only of every group element, wrong shapes (length mismatches, zero openings, |L|=|R| in {0,1,7,9,16}, |L|!=|R|), random well-formed tuples; the same families for ipa.CheckIPAProof; no-ops are detected by canonical encodings and skipped; " +
			"decision expected by construction and confirmed by the independent reference verifier on one case of every class (every case in thorough shards 0-3) and on every case the library accepts; a class is (function, perturbation kind, n class); non-trivial = n >= 2 or proof component perturbation",
		Technique:        "reference-model monitor: decision of an independent naive-folding verifier (math/big) + by-construction expectations over perturbation classes; recover() around every call",
		MinEvals:         map[string]int64{"quick": 1500, "thorough": 20000},
		MinClasses:       map[string]int64{"quick": 150, "thorough": 200},
		RequiredCounters: []string{"rejections_expected_and_observed", "acceptances_expected_and_observed", "reference_verifier_decisions", "shape_errors_expected_and_observed"},
		Assumptions:      []string{"a random forgery verifying and hash collisions are treated as impossible", "honest tuples come from the library's prover; their acceptance by the reference verifier is checked first"},
		Plan: func(tier string) []Child {
			out := shards(pick(tier, 12, 16), Child{Flavour: "plain", NCPU: 1})
			for i := range out {
				if i%4 == 1 {
					out[i].NCPU = []int{3, 5, 7, 6}[(i/4)%4] // the shards with the 1025-opening base see several CPUs
				}
				if i%4 == 3 {
					out[i].NCPU = []int{2, 8, 3, 16}[(i/4)%4] // and so do the shards with the 4097-opening base
				}
			}
			return out
		},
		Run: runC02,
	})
}

type c02tuple struct {
	label string
	Cs    []*banderwagon.Element
	ys    []*fr.Element
	zs    []uint8
	pr    *multiproof.MultiProof
}

func (t *c02tuple) clone() *c02tuple {
	o := &c02tuple{label: t.label}
	for _, c := range t.Cs {
		cc := *c
		o.Cs = append(o.Cs, &cc)
	}
	for _, y := range t.ys {
		yy := *y
		o.ys = append(o.ys, &yy)
	}
	o.zs = append([]uint8(nil), t.zs...)
	p := multiproof.MultiProof{D: t.pr.D}
	p.IPA.L = append([]banderwagon.Element(nil), t.pr.IPA.L...)
	p.IPA.R = append([]banderwagon.Element(nil), t.pr.IPA.R...)
	p.IPA.A_scalar = t.pr.IPA.A_scalar
	o.pr = &p
	return o
}

// encoding is a canonical byte encoding of the whole tuple (used to skip no-op perturbations).
func (t *c02tuple) encoding() []byte {
	var b bytes.Buffer
	b.WriteString(t.label)
	b.WriteByte(0xff)
	for i := range t.Cs {
		e := t.Cs[i].Bytes()
		b.Write(e[:])
		b.WriteByte(t.zs[i])
		y := t.ys[i].Bytes()
		b.Write(y[:])
	}
	b.WriteByte(0xfe)
	t.pr.Write(&b)
	return b.Bytes()
}

func (t *c02tuple) libVerify(env *Env) (ok bool, err error, panicked interface{}) {
	panicked, _ = mon.Try(func() {
		ok, err = multiproof.CheckMultiProof(common.NewTranscript(t.label), env.Conf, t.pr, t.Cs, t.ys, t.zs)
	})
	return
}

func (t *c02tuple) refVerify(env *Env, naive bool) (bool, error) {
	if len(t.pr.IPA.L) != 8 || len(t.pr.IPA.R) != 8 {
		return false, ref.ErrShape
	}
	n := len(t.Cs)
	if n == 0 || len(t.ys) != n || len(t.zs) != n {
		return false, ref.ErrStatement
	}
	// an element that is not a representation of a curve point (the all-zero Go value, Z = 0, off the curve) makes
	// the tuple invalid: the reference rejects without looking further
	invalid := false
	cv := func(e *banderwagon.Element) ref.Point {
		p, ok := ElemToRef(e)
		if !ok || !p.Affine().OnCurve() {
			invalid = true
			return ref.Identity()
		}
		return p
	}
	rp := &ref.MultiProof{D: cv(&t.pr.D), IPA: &ref.IPAProof{A: FrToBig(&t.pr.IPA.A_scalar)}}
	for i := 0; i < 8; i++ {
		rp.IPA.L = append(rp.IPA.L, cv(&t.pr.IPA.L[i]))
		rp.IPA.R = append(rp.IPA.R, cv(&t.pr.IPA.R[i]))
	}
	Cs := make([]ref.Point, n)
	ys := make([]*big.Int, n)
	zs := make([]int, n)
	for i := range Cs {
		Cs[i] = cv(t.Cs[i])
		ys[i] = FrToBig(t.ys[i])
		zs[i] = int(t.zs[i])
	}
	if invalid {
		return false, errors.New("ref: an element of the tuple is not a curve point")
	}
	return env.Ref.VerifyMulti(ref.NewTranscript(t.label), rp, Cs, ys, zs, naive)
}

type c02pert struct {
	name string
	f    func(t *c02tuple, rng *rand.Rand, pool *Pool) bool
}

func c02perts() []c02pert {
	G := banderwagon.Generator
	pt := func(name string, sel func(t *c02tuple, rng *rand.Rand) *banderwagon.Element, f func(e *banderwagon.Element, t *c02tuple, rng *rand.Rand, pool *Pool)) c02pert {
		return c02pert{name, func(t *c02tuple, rng *rand.Rand, pool *Pool) bool {
			e := sel(t, rng)
			if e == nil {
				return false
			}
			f(e, t, rng, pool)
			return true
		}}
	}
	selC := func(t *c02tuple, rng *rand.Rand) *banderwagon.Element { return t.Cs[rng.Intn(len(t.Cs))] }
	selD := func(t *c02tuple, rng *rand.Rand) *banderwagon.Element { return &t.pr.D }
	selL := func(t *c02tuple, rng *rand.Rand) *banderwagon.Element { return &t.pr.IPA.L[rng.Intn(8)] }
	selR := func(t *c02tuple, rng *rand.Rand) *banderwagon.Element { return &t.pr.IPA.R[rng.Intn(8)] }
	addG := func(e *banderwagon.Element, _ *c02tuple, _ *rand.Rand, _ *Pool) { e.Add(e, &G) }
	neg := func(e *banderwagon.Element, _ *c02tuple, _ *rand.Rand, _ *Pool) { e.Neg(e) }
	dbl := func(e *banderwagon.Element, _ *c02tuple, _ *rand.Rand, _ *Pool) { e.Double(e) }
	ident := func(e *banderwagon.Element, _ *c02tuple, _ *rand.Rand, _ *Pool) { e.SetIdentity() }
	rnd := func(e *banderwagon.Element, _ *c02tuple, rng *rand.Rand, pool *Pool) {
		*e = ElemFromRef(pool.P[rng.Intn(len(pool.P))], randNonZeroP(rng), rng.Intn(2) == 0)
	}
	var out []c02pert
	for _, g := range []struct {
		n   string
		sel func(t *c02tuple, rng *rand.Rand) *banderwagon.Element
	}{{"C_i", selC}, {"D", selD}, {"L_j", selL}, {"R_j", selR}} {
		out = append(out, pt(g.n+":+G", g.sel, addG), pt(g.n+":negate", g.sel, neg), pt(g.n+":double", g.sel, dbl), pt(g.n+":identity", g.sel, ident), pt(g.n+":random-point", g.sel, rnd))
	}
	out = append(out,
		c02pert{"C_i:another-openings-C", func(t *c02tuple, rng *rand.Rand, _ *Pool) bool {
			if len(t.Cs) < 2 {
				return false
			}
			i := rng.Intn(len(t.Cs))
			j := (i + 1 + rng.Intn(len(t.Cs)-1)) % len(t.Cs)
			*t.Cs[i] = *t.Cs[j]
			return true
		}},
		c02pert{"z_i:+1", func(t *c02tuple, rng *rand.Rand, _ *Pool) bool { t.zs[rng.Intn(len(t.zs))]++; return true }},
		c02pert{"z_i:random", func(t *c02tuple, rng *rand.Rand, _ *Pool) bool {
			t.zs[rng.Intn(len(t.zs))] = uint8(rng.Intn(256))
			return true
		}},
		c02pert{"y_i:+1", func(t *c02tuple, rng *rand.Rand, _ *Pool) bool {
			one := fr.One()
			y := t.ys[rng.Intn(len(t.ys))]
			y.Add(y, &one)
			return true
		}},
		c02pert{"y_i:zero", func(t *c02tuple, rng *rand.Rand, _ *Pool) bool { t.ys[rng.Intn(len(t.ys))].SetZero(); return true }},
		c02pert{"y_i:negate", func(t *c02tuple, rng *rand.Rand, _ *Pool) bool { y := t.ys[rng.Intn(len(t.ys))]; y.Neg(y); return true }},
		c02pert{"y_i:random", func(t *c02tuple, rng *rand.Rand, _ *Pool) bool {
			*t.ys[rng.Intn(len(t.ys))] = FrFromBig(randBig(rng, ref.R))
			return true
		}},
		c02pert{"y_i:value-at-neighbour-index", func(t *c02tuple, rng *rand.Rand, _ *Pool) bool {
			if len(t.ys) < 2 {
				return false
			}
			i := rng.Intn(len(t.ys))
			*t.ys[i] = *t.ys[(i+1)%len(t.ys)]
			return true
		}},
		c02pert{"L_j<->R_j", func(t *c02tuple, rng *rand.Rand, _ *Pool) bool {
			j := rng.Intn(8)
			t.pr.IPA.L[j], t.pr.IPA.R[j] = t.pr.IPA.R[j], t.pr.IPA.L[j]
			return true
		}},
		c02pert{"L_j<->L_k", func(t *c02tuple, rng *rand.Rand, _ *Pool) bool {
			j := rng.Intn(8)
			k := (j + 1 + rng.Intn(7)) % 8
			t.pr.IPA.L[j], t.pr.IPA.L[k] = t.pr.IPA.L[k], t.pr.IPA.L[j]
			return true
		}},
		c02pert{"R_j<->R_k", func(t *c02tuple, rng *rand.Rand, _ *Pool) bool {
			j := rng.Intn(8)
			k := (j + 1 + rng.Intn(7)) % 8
			t.pr.IPA.R[j], t.pr.IPA.R[k] = t.pr.IPA.R[k], t.pr.IPA.R[j]
			return true
		}},
		c02pert{"a:+1", func(t *c02tuple, rng *rand.Rand, _ *Pool) bool {
			one := fr.One()
			t.pr.IPA.A_scalar.Add(&t.pr.IPA.A_scalar, &one)
			return true
		}},
		c02pert{"a:zero", func(t *c02tuple, rng *rand.Rand, _ *Pool) bool { t.pr.IPA.A_scalar.SetZero(); return true }},
		c02pert{"a:negate", func(t *c02tuple, rng *rand.Rand, _ *Pool) bool {
			t.pr.IPA.A_scalar.Neg(&t.pr.IPA.A_scalar)
			return true
		}},
		c02pert{"a:random", func(t *c02tuple, rng *rand.Rand, _ *Pool) bool {
			t.pr.IPA.A_scalar = FrFromBig(randBig(rng, ref.R))
			return true
		}},
		c02pert{"order:swap", func(t *c02tuple, rng *rand.Rand, _ *Pool) bool {
			if len(t.Cs) < 2 {
				return false
			}
			i := rng.Intn(len(t.Cs))
			j := (i + 1 + rng.Intn(len(t.Cs)-1)) % len(t.Cs)
			t.Cs[i], t.Cs[j] = t.Cs[j], t.Cs[i]
			t.ys[i], t.ys[j] = t.ys[j], t.ys[i]
			t.zs[i], t.zs[j] = t.zs[j], t.zs[i]
			return true
		}},
		c02pert{"order:rotate", func(t *c02tuple, rng *rand.Rand, _ *Pool) bool {
			if len(t.Cs) < 2 {
				return false
			}
			t.Cs = append(t.Cs[1:], t.Cs[0])
			t.ys = append(t.ys[1:], t.ys[0])
			t.zs = append(t.zs[1:], t.zs[0])
			return true
		}},
		c02pert{"number:drop", func(t *c02tuple, rng *rand.Rand, _ *Pool) bool {
			if len(t.Cs) < 2 {
				return false
			}
			i := rng.Intn(len(t.Cs))
			t.Cs = append(t.Cs[:i:i], t.Cs[i+1:]...)
			t.ys = append(t.ys[:i:i], t.ys[i+1:]...)
			t.zs = append(t.zs[:i:i], t.zs[i+1:]...)
			return true
		}},
		c02pert{"number:duplicate", func(t *c02tuple, rng *rand.Rand, _ *Pool) bool {
			i := rng.Intn(len(t.Cs))
			t.Cs = append(t.Cs, t.Cs[i])
			t.ys = append(t.ys, t.ys[i])
			t.zs = append(t.zs, t.zs[i])
			return true
		}},
		// the Go zero value of the element type (all coordinates zero) in place of a commitment / D / L_j / R_j
		c02pert{"C_i:zero-value", func(t *c02tuple, rng *rand.Rand, _ *Pool) bool {
			*t.Cs[rng.Intn(len(t.Cs))] = banderwagon.Element{}
			return true
		}},
		c02pert{"D:zero-value", func(t *c02tuple, rng *rand.Rand, _ *Pool) bool { t.pr.D = banderwagon.Element{}; return true }},
		c02pert{"L_j:zero-value", func(t *c02tuple, rng *rand.Rand, _ *Pool) bool {
			t.pr.IPA.L[rng.Intn(8)] = banderwagon.Element{}
			return true
		}},
		c02pert{"R_j:zero-value", func(t *c02tuple, rng *rand.Rand, _ *Pool) bool {
			t.pr.IPA.R[rng.Intn(8)] = banderwagon.Element{}
			return true
		}},
		c02pert{"all-L-R:zero-value", func(t *c02tuple, rng *rand.Rand, _ *Pool) bool {
			for j := 0; j < 8; j++ {
				t.pr.IPA.L[j], t.pr.IPA.R[j] = banderwagon.Element{}, banderwagon.Element{}
			}
			return true
		}},
		c02pert{"label:other", func(t *c02tuple, rng *rand.Rand, _ *Pool) bool { t.label = t.label + "x"; return true }},
		c02pert{"label:prefix", func(t *c02tuple, rng *rand.Rand, _ *Pool) bool {
			if len(t.label) == 0 {
				t.label = "m" // with the empty label: shift one byte of the domain separator into the label
				return true
			}
			t.label = t.label[:len(t.label)-1]
			return true
		}},
		c02pert{"label:flip-bit", func(t *c02tuple, rng *rand.Rand, _ *Pool) bool {
			if len(t.label) == 0 {
				return false
			}
			b := []byte(t.label)
			b[rng.Intn(len(b))] ^= 1
			t.label = string(b)
			return true
		}},
	)
	return out
}

func runC02(c *mon.Ctx) {
	env := GetEnv()
	pool := NewPool(c.Rand("pool"), 40)
	perts := c02perts()
	nbase := c.Pick(72, 600)
	refSeen := map[string]bool{}
	allRef := c.Thorough() && c.Shard < 4
	ns := []int{1, 2, 3, 5, 9, 17, 40}
	for b := 0; b < nbase; b++ {
		if !c.Mine(b) {
			continue
		}
		id := fmt.Sprintf("base/%d", b)
		b := b
		c.Case(id, func() {
			rng := c.Rand(id)
			n := ns[b%len(ns)]
			if b == c.Shard && c.Shard%4 == 1 {
				n = 1025 // beyond any internal batching threshold, not a multiple of small CPU counts
			}
			if c.Thorough() && b == c.Shard && c.Shard == 6 {
				n = 65537 // beyond 16-bit counts
			}
			if b == c.Shard && c.Shard%4 == 3 {
				n = 4097 // beyond 4096 openings, 17*241: not a multiple of any small task count
			}
			polys := makePolys(env, rng, 1+rng.Intn(4))
			s := genStatement(env, rng, n, rng.Intn(10), polys)
			if s.label == "" && rng.Intn(2) == 0 {
				s.label = "vt"
			}
			pr, _, _, err := s.prove(env)
			if err != nil {
				c.Note("prover failed (C01's subject): " + err.Error())
				return
			}
			base := &c02tuple{label: s.label, Cs: s.Cs, ys: s.ys, zs: s.zs, pr: pr}
			baseEnc := base.encoding()
			ncl := nClass(n)
			// the honest tuple must be accepted by both verifiers
			ok, verr, pv := base.libVerify(env)
			if pv != nil || verr != nil || !ok {
				// who is wrong? If the reference verifier accepts the tuple, the library verifier rejects a valid proof
				// (the two must always agree); otherwise the prover produced a bad proof, which is C01's subject.
				rok, rerr := base.refVerify(env, false)
				c.Count("reference_verifier_decisions", 1)
				if rok && rerr == nil {
					c.Fail("valid-proof-rejected", fmt.Sprintf("CheckMultiProof rejects (ok=%v err=%v panic=%v) a tuple that the reference verifier accepts", ok, verr, pv), s.describe())
				} else {
					c.Note(fmt.Sprintf("honest tuple rejected by both verifiers (prover defect, C01's subject): ok=%v err=%v", ok, verr))
				}
				return
			}
			if (!refSeen["honest|"+ncl] && c02owner(c, "honest|"+ncl)) || allRef || n > 4000 || (len(s.label) > 1000 && b%2 == 0) {
				refSeen["honest|"+ncl] = true
				rok, rerr := base.refVerify(env, b%3 == 0)
				c.Count("reference_verifier_decisions", 1)
				if !rok || rerr != nil {
					c.Fail("honest-proof-rejected-by-reference", "the library accepts its own proof but the independent reference verifier rejects it", s.describe())
					return
				}
			}
			c.Count("acceptances_expected_and_observed", 1)
			c.Eval("CheckMultiProof|honest|"+ncl, n >= 2)

			// large statements: the last openings in particular must be bound (their claimed value, zero or not)
			if n > 500 {
				for _, i := range []int{n - 1, n - 2, n - 3, n / 2} {
					t := base.clone()
					one := fr.One()
					t.ys[i].Add(t.ys[i], &one)
					c02expectReject(c, env, t, "CheckMultiProof|y_i:+1-at-tail|"+ncl, "y_i:+1-at-tail", refSeen, false, s)
				}
			}
			// (a) single-component perturbations: expect rejection
			for _, p := range perts {
				t := base.clone()
				if !p.f(t, rng, pool) {
					continue
				}
				if bytes.Equal(t.encoding(), baseEnc) {
					c.Count("noop_perturbations_skipped", 1)
					continue
				}
				c02expectReject(c, env, t, "CheckMultiProof|"+p.name+"|"+ncl, p.name, refSeen, allRef, s)
			}
			// number:append a further honest opening
			{
				t := base.clone()
				extra := polys[rng.Intn(len(polys))]
				z := uint8(rng.Intn(256))
				cc := extra.comm
				y := extra.lv[z]
				t.Cs, t.ys, t.zs = append(t.Cs, &cc), append(t.ys, &y), append(t.zs, z)
				c02expectReject(c, env, t, "CheckMultiProof|number:append-honest-opening|"+ncl, "number:append-honest-opening", refSeen, allRef, s)
			}
			// (b) splices with a second honest proof
			var other *c02tuple
			{
				s2 := genStatement(env, rng, n, rng.Intn(10), polys)
				s2.label = s.label
				if pr2, _, _, err := s2.prove(env); err == nil {
					t2 := &c02tuple{label: s2.label, Cs: s2.Cs, ys: s2.ys, zs: s2.zs, pr: pr2}
					other = t2.clone()
					if !bytes.Equal(t2.encoding(), baseEnc) {
						t := base.clone()
						t.pr.D = pr2.D
						if !bytes.Equal(t.encoding(), baseEnc) {
							c02expectReject(c, env, t, "CheckMultiProof|splice:D-of-other-proof|"+ncl, "splice:D", refSeen, allRef, s)
						}
						t = base.clone()
						t.pr.IPA = t2.clone().pr.IPA
						if !bytes.Equal(t.encoding(), baseEnc) {
							c02expectReject(c, env, t, "CheckMultiProof|splice:IPA-of-other-proof|"+ncl, "splice:IPA", refSeen, allRef, s)
						}
						t = t2.clone()
						t.pr = base.clone().pr
						if !bytes.Equal(t.encoding(), t2.encoding()) {
							c02expectReject(c, env, t, "CheckMultiProof|splice:proof-of-other-statement|"+ncl, "splice:statement", refSeen, allRef, s)
						}
					}
				}
			}
			// (c) re-representation only: decision must stay "accept"
			for k := 0; k < 3; k++ {
				t := base.clone()
				for i := range t.Cs {
					*t.Cs[i] = Rerepresent(t.Cs[i], rng.Intn(NumRepKinds), rng)
				}
				t.pr.D = Rerepresent(&t.pr.D, rng.Intn(NumRepKinds), rng)
				for j := 0; j < 8; j++ {
					t.pr.IPA.L[j] = Rerepresent(&t.pr.IPA.L[j], rng.Intn(NumRepKinds), rng)
					t.pr.IPA.R[j] = Rerepresent(&t.pr.IPA.R[j], rng.Intn(NumRepKinds), rng)
				}
				ok, verr, pv := t.libVerify(env)
				if pv != nil {
					c.Fail("panic/CheckMultiProof", fmt.Sprintf("CheckMultiProof panicked on a re-represented honest tuple: %v", pv), nil)
				} else if !ok || verr != nil {
					c.Fail("rerepresentation-changes-decision", fmt.Sprintf("changing only the representation of the group elements turns accept into ok=%v err=%v", ok, verr), s.describe())
				} else {
					c.Count("acceptances_expected_and_observed", 1)
				}
				c.Eval("CheckMultiProof|re-representation|"+ncl, true)
			}
			// (d) wrong shapes: (false, error), never a panic
			c02shapes(c, env, base, rng, ncl)
			// ... and a failing call must leave nothing behind: an honest tuple of a different statement (other indices and
			// values) verified right after the error paths must be accepted, and a false statement built from it rejected
			if other != nil {
				ok, verr, pv := other.libVerify(env)
				if pv != nil || verr != nil || !ok {
					rok, _ := other.refVerify(env, false)
					c.Count("reference_verifier_decisions", 1)
					if rok {
						c.Fail("valid-proof-rejected-after-error-path", fmt.Sprintf("after wrong-shape calls, CheckMultiProof rejects (ok=%v err=%v panic=%v) an honest tuple of another statement that the reference verifier accepts", ok, verr, pv), s.describe())
					}
				} else {
					c.Count("acceptances_expected_and_observed", 1)
				}
				c.Eval("CheckMultiProof|honest-other-statement-after-error-paths|"+ncl, true)
				sh := base.clone()
				sh.pr.IPA.L = sh.pr.IPA.L[:5]
				sh.libVerify(env) // error path once more
				t := other.clone()
				one := fr.One()
				t.ys[0].Add(t.ys[0], &one)
				c02expectReject(c, env, t, "CheckMultiProof|y_i:+1-after-error-path|"+ncl, "y_i:+1-after-error-path", refSeen, allRef, s)
			}
			// (e) random well-formed tuple
			{
				t := base.clone()
				t.pr.D = ElemFromRef(pool.P[rng.Intn(len(pool.P))], nil, false)
				for j := 0; j < 8; j++ {
					t.pr.IPA.L[j] = ElemFromRef(pool.P[rng.Intn(len(pool.P))], nil, false)
					t.pr.IPA.R[j] = ElemFromRef(pool.P[rng.Intn(len(pool.P))], randNonZeroP(rng), true)
				}
				t.pr.IPA.A_scalar = FrFromBig(randBig(rng, ref.R))
				c02expectReject(c, env, t, "CheckMultiProof|random-proof|"+ncl, "random-proof", refSeen, allRef, s)
			}
			// ---- the same for ipa.CheckIPAProof directly ----
			c02ipa(c, env, polys[0], rng, pool)
			if b == 0 {
				d := s.describe()
				d["perturbation_kinds"] = len(perts) + 6
				c.Sample(d)
			}
		})
	}
}

func c02expectReject(c *mon.Ctx, env *Env, t *c02tuple, cls, kind string, refSeen map[string]bool, allRef bool, s *statement) {
	ok, verr, pv := t.libVerify(env)
	det := func() map[string]interface{} {
		d := s.describe()
		d["perturbation"] = kind
		return d
	}
	switch {
	case pv != nil:
		c.Fail("panic/CheckMultiProof", fmt.Sprintf("CheckMultiProof panicked on a perturbed tuple (%s): %v", kind, pv), det())
	case ok && verr != nil:
		c.Fail("true-with-error", fmt.Sprintf("CheckMultiProof returned true together with an error (%s)", kind), det())
	case ok:
		// The decider is the reference verifier: for a degenerate statement (all opened polynomials zero, hence D, L_j, R_j
		// in the identity class and a = 0) the verification equation holds for every transcript, and both verifiers accept.
		rok, _ := t.refVerify(env, true)
		c.Count("reference_verifier_decisions", 1)
		if rok {
			c.Count("accepted_by_both_verifiers_degenerate", 1)
			if !c02degenerate(t) {
				c.Note("both verifiers accept a perturbed non-degenerate tuple of kind " + kind)
				c.Count("accepted_by_both_verifiers_NON_degenerate", 1)
			}
		} else {
			c.Fail("accepted-perturbed/"+kind, fmt.Sprintf("CheckMultiProof accepts a tuple in which %s was changed to a different value; the reference verifier rejects it", kind), det())
		}
		c.Eval(cls, true)
		return
	default:
		c.Count("rejections_expected_and_observed", 1)
	}
	if (!refSeen[cls] && c02owner(c, cls)) || allRef {
		refSeen[cls] = true
		rok, _ := t.refVerify(env, false)
		c.Count("reference_verifier_decisions", 1)
		if rok {
			c.Note("reference verifier accepts a perturbed tuple of kind " + kind + " - harness problem")
		}
		if rok != ok && pv == nil {
			c.Fail("disagrees-with-reference/"+kind, fmt.Sprintf("library decision %v, reference verifier decision %v (%s)", ok, rok, kind), det())
		}
	}
	c.Eval(cls, true)
}

// c02owner spreads the once-per-class reference confirmations over the shards.
func c02owner(c *mon.Ctx, cls string) bool {
	h := 0
	for _, ch := range cls {
		h = h*31 + int(ch)
		h &= 0xffffff
	}
	return c.NShards <= 1 || h%c.NShards == c.Shard
}

// c02degenerate reports whether the proof is the trivial one (a = 0 and every L_j, R_j in the identity class).
func c02degenerate(t *c02tuple) bool {
	if !t.pr.IPA.A_scalar.IsZero() {
		return false
	}
	for j := range t.pr.IPA.L {
		l, _ := ElemToRef(&t.pr.IPA.L[j])
		r, _ := ElemToRef(&t.pr.IPA.R[j])
		if !isIdentityClass(l) || !isIdentityClass(r) {
			return false
		}
	}
	return true
}

func c02shapes(c *mon.Ctx, env *Env, base *c02tuple, rng *rand.Rand, ncl string) {
	type shape struct {
		name string
		f    func(t *c02tuple)
	}
	cut := func(n int) func(t *c02tuple) {
		return func(t *c02tuple) {
			mk := func(src []banderwagon.Element) []banderwagon.Element {
				out := make([]banderwagon.Element, n)
				for i := range out {
					out[i] = src[i%8]
				}
				return out
			}
			t.pr.IPA.L, t.pr.IPA.R = mk(t.pr.IPA.L), mk(t.pr.IPA.R)
		}
	}
	shapes := []shape{
		{"ys-shorter", func(t *c02tuple) { t.ys = t.ys[:len(t.ys)-1] }},
		{"zs-shorter", func(t *c02tuple) { t.zs = t.zs[:len(t.zs)-1] }},
		{"Cs-shorter", func(t *c02tuple) { t.Cs = t.Cs[:len(t.Cs)-1] }},
		{"ys-longer", func(t *c02tuple) { t.ys = append(t.ys, t.ys[0]) }},
		{"zs-longer", func(t *c02tuple) { t.zs = append(t.zs, 0) }},
		{"zero-openings", func(t *c02tuple) { t.Cs, t.ys, t.zs = nil, nil, nil }},
		{"L=R=0", cut(0)}, {"L=R=1", cut(1)}, {"L=R=7", cut(7)}, {"L=R=9", cut(9)}, {"L=R=16", cut(16)},
		{"L=7,R=8", func(t *c02tuple) { t.pr.IPA.L = t.pr.IPA.L[:7] }},
		{"L=8,R=9", func(t *c02tuple) { t.pr.IPA.R = append(t.pr.IPA.R, t.pr.IPA.R[0]) }},
		{"L=nil", func(t *c02tuple) { t.pr.IPA.L = nil }},
	}
	for _, sh := range shapes {
		t := base.clone()
		sh.f(t)
		ok, verr, pv := t.libVerify(env)
		switch {
		case pv != nil:
			c.Fail("panic/CheckMultiProof/shape:"+sh.name, fmt.Sprintf("CheckMultiProof panicked on a wrong-shape input (%s): %v", sh.name, pv), nil)
		case ok:
			c.Fail("accepted-wrong-shape/"+sh.name, "CheckMultiProof returned true for a wrong-shape input ("+sh.name+")", nil)
		case verr == nil:
			c.Fail("no-error-for-wrong-shape/"+sh.name, "CheckMultiProof returned (false, nil) for a wrong-shape input ("+sh.name+"): an error is required", nil)
		default:
			c.Count("shape_errors_expected_and_observed", 1)
		}
		c.Eval("CheckMultiProof|shape:"+sh.name+"|"+ncl, true)
	}
}

func c02ipa(c *mon.Ctx, env *Env, pd *polyDef, rng *rand.Rand, pool *Pool) {
	z := []*big.Int{big.NewInt(int64(rng.Intn(256))), new(big.Int).Add(big.NewInt(256), randBig(rng, new(big.Int).Sub(ref.R, big.NewInt(256))))}[rng.Intn(2)]
	zf := FrFromBig(z)
	pr, err := ipa.CreateIPAProof(common.NewTranscript("c02"), env.Conf, pd.comm, pd.lv, zf)
	if err != nil {
		return
	}
	y := ref.InnerProd(pd.v, ref.LagrangeAt(z))
	yf := FrFromBig(y)
	check := func(name string, comm banderwagon.Element, p ipa.IPAProof, zz, yy fr.Element, label string, wantAccept, wantErr bool) {
		var ok bool
		var verr error
		pv, _ := mon.Try(func() { ok, verr = ipa.CheckIPAProof(common.NewTranscript(label), env.Conf, comm, p, zz, yy) })
		switch {
		case pv != nil:
			c.Fail("panic/CheckIPAProof", fmt.Sprintf("CheckIPAProof panicked (%s): %v", name, pv), nil)
		case wantAccept && (!ok || verr != nil):
			c.Fail("ipa-honest-rejected/"+name, fmt.Sprintf("CheckIPAProof rejects (%s): ok=%v err=%v", name, ok, verr), nil)
		case !wantAccept && ok:
			// decider: the reference verifier (the zero polynomial's trivial proof verifies under every transcript)
			cv := func(e *banderwagon.Element) ref.Point { q, _ := ElemToRef(e); return q }
			rp := &ref.IPAProof{A: FrToBig(&p.A_scalar)}
			for j := range p.L {
				rp.L = append(rp.L, cv(&p.L[j]))
				rp.R = append(rp.R, cv(&p.R[j]))
			}
			rok, _ := env.Ref.VerifyIPA(ref.NewTranscript(label), cv(&comm), rp, FrToBig(&zz), FrToBig(&yy), true)
			c.Count("reference_verifier_decisions", 1)
			if rok {
				c.Count("accepted_by_both_verifiers_degenerate", 1)
			} else {
				c.Fail("ipa-accepted-perturbed/"+name, "CheckIPAProof accepts a perturbed tuple ("+name+") which the reference verifier rejects", nil)
			}
		case wantErr && verr == nil:
			c.Fail("ipa-no-error-for-wrong-shape/"+name, "CheckIPAProof returned (false, nil) for a wrong-shape proof ("+name+")", nil)
		case wantAccept:
			c.Count("acceptances_expected_and_observed", 1)
		case wantErr:
			c.Count("shape_errors_expected_and_observed", 1)
		default:
			c.Count("rejections_expected_and_observed", 1)
		}
		c.Eval("CheckIPAProof|"+name, true)
	}
	cp := func() ipa.IPAProof {
		return ipa.IPAProof{L: append([]banderwagon.Element(nil), pr.L...), R: append([]banderwagon.Element(nil), pr.R...), A_scalar: pr.A_scalar}
	}
	check("honest", pd.comm, cp(), zf, yf, "c02", true, false)
	rep := cp()
	for j := range rep.L {
		rep.L[j] = Rerepresent(&rep.L[j], rng.Intn(NumRepKinds), rng)
		rep.R[j] = Rerepresent(&rep.R[j], rng.Intn(NumRepKinds), rng)
	}
	check("re-representation", Rerepresent(&pd.comm, rng.Intn(NumRepKinds), rng), rep, zf, yf, "c02", true, false)
	one := fr.One()
	var y1, z1 fr.Element
	y1.Add(&yf, &one)
	z1.Add(&zf, &one)
	check("result+1", pd.comm, cp(), zf, y1, "c02", false, false)
	check("point+1", pd.comm, cp(), z1, yf, "c02", false, false)
	check("label", pd.comm, cp(), zf, yf, "c02x", false, false)
	var cg banderwagon.Element
	cg.Add(&pd.comm, &banderwagon.Generator)
	check("commitment+G", cg, cp(), zf, yf, "c02", false, false)
	j := rng.Intn(8)
	p := cp()
	p.L[j].Add(&p.L[j], &banderwagon.Generator)
	check("L_j+G", pd.comm, p, zf, yf, "c02", false, false)
	p = cp()
	p.R[j].Double(&p.R[j])
	if !p.R[j].Equal(&pr.R[j]) {
		check("R_j-doubled", pd.comm, p, zf, yf, "c02", false, false)
	}
	p = cp()
	p.L[j], p.R[j] = p.R[j], p.L[j]
	if !p.L[j].Equal(&pr.L[j]) {
		check("L_j<->R_j", pd.comm, p, zf, yf, "c02", false, false)
	}
	p = cp()
	p.A_scalar.Add(&p.A_scalar, &one)
	check("a+1", pd.comm, p, zf, yf, "c02", false, false)
	for _, n := range []int{0, 1, 7, 9, 16} {
		p = cp()
		mk := func(src []banderwagon.Element) []banderwagon.Element {
			out := make([]banderwagon.Element, n)
			for i := range out {
				out[i] = src[i%8]
			}
			return out
		}
		p.L, p.R = mk(p.L), mk(p.R)
		check(fmt.Sprintf("shape:L=R=%d", n), pd.comm, p, zf, yf, "c02", false, true)
	}
	p = cp()
	p.L = p.L[:7]
	check("shape:L=7,R=8", pd.comm, p, zf, yf, "c02", false, true)
	p = cp()
	p.R = append(p.R, p.R[0])
	check("shape:L=8,R=9", pd.comm, p, zf, yf, "c02", false, true)
}
