package checks

import (
	"bufio"
	"bytes"
	"fmt"
	"math/big"
	"math/rand"
	"runtime/debug"
	"strings"
	"testing/iotest"

	"github.com/crate-crypto/go-ipa/bandersnatch"
	"github.com/crate-crypto/go-ipa/banderwagon"
	"github.com/crate-crypto/go-ipa/common"

	"verif/mon"
	"verif/ref"
)

func init() {
	register(&Check{
		ID:    "C06",
		Title: "Untrusted point decoding accepts exactly canonical subgroup encodings",
		Rule: "32-byte strings: uniformly random (about 1/2 off-curve, 1/4 on-curve outside the subgroup, 1/4 valid), encodings of reference multiples and their negations, x+p and x+2p aliases of valid encodings, boundary values 0,1,p-1,p,p+1,r,2^255,2^256-1, single-bit flips of valid encodings; every other length 0..70; " +
			"64-byte strings: (x,y_large), (x,y_small), (-x,-y), (x+p,y), (x,y+p), (x,y+-1), non-subgroup x with its correct root, off-curve x, random; each through SetBytes / SetBytesUncompressed(untrusted) / ReadPoint; " +
			"a class is (decoder, input class, reference verdict); non-trivial = length-correct input",
		Technique:        "reference-model monitor: independent decoder (canonical test, curve equation, Jacobi symbols, larger-root rule in math/big) decides acceptance and the decoded coordinates for every input; r*P checked by reference multiplication on a sample",
		MinEvals:         map[string]int64{"quick": 40000, "thorough": 1000000},
		MinClasses:       map[string]int64{"quick": 60, "thorough": 60},
		RequiredCounters: []string{"accepted_expected_and_observed", "rejected_expected_and_observed", "order_checked_by_reference", "alias_rejections", "nested_reads"},
		Assumptions:      []string{"math/big ModSqrt/Jacobi are the oracle for residuosity; the reference decoder reproduces the 16 published generator encodings and rejects the 16 published non-subgroup encodings"},
		Plan: func(tier string) []Child {
			return plus386div(shardsVar(pick(tier, 12, 16), Child{Flavour: "plain", NCPU: 1}), 1, pick(tier, 1, 8))
		},
		Run: runC06,
	})
}

var c06acc banderwagon.Element

func c06compressed(c *mon.Ctx, b []byte, cls string, rng *rand.Rand) {
	snap := append([]byte(nil), b...)
	// history: sometimes the same bytes are first decoded through the TRUSTED entry points; the untrusted decision
	// must not depend on it
	if rng.Intn(3) == 0 {
		var t banderwagon.Element
		mon.Try(func() { t.SetBytesUnsafe(b) })
		if len(b) == 32 && rng.Intn(2) == 0 {
			mon.Try(func() { t.SetBytesUncompressed(append(append([]byte(nil), b...), b...), true) })
		}
		c.Count("trusted_decode_before_untrusted", 1)
	}
	// ... or the lower-level point recovery is used first (x = 0 and the input itself, both sign choices)
	if rng.Intn(5) == 0 {
		for _, xv := range []*big.Int{new(big.Int), new(big.Int).Mod(ref.FromBE(b), ref.P)} {
			xe := FpFromBig(xv)
			if p := bandersnatch.GetPointFromX(&xe, rng.Intn(2) == 0); p != nil {
				p.Y.SetUint64(3) // the result is ours
			}
		}
		c.Count("point_recovery_before_decode", 1)
	}
	want, werr := ref.Deserialize(b)
	verdict := "accept"
	if werr != nil {
		verdict = werr.Error()[5:]
	}
	type dec struct {
		name string
		f    func() (*banderwagon.Element, error)
	}
	decs := []dec{
		{"SetBytes", func() (*banderwagon.Element, error) {
			// the receiver is re-used across calls: it holds whatever the previous (failed or successful) decode left
			e := &c06acc
			err := e.SetBytes(b)
			cp := *e
			return &cp, err
		}},
		{"ReadPoint", func() (*banderwagon.Element, error) { return common.ReadPoint(bytes.NewReader(b)) }},
		{"ReadPoint/bytes.Buffer", func() (*banderwagon.Element, error) {
			return common.ReadPoint(bytes.NewBuffer(b)) // reads straight out of the caller's slice
		}},
		{"SetBytes/read-only-input", func() (*banderwagon.Element, error) {
			// the encoding is on a read-only page: a decoder that writes to its input, even transiently, faults (a panic here)
			var e banderwagon.Element
			err := e.SetBytes(roBytesBudget(b))
			return &e, err
		}},
		{"ReadPoint/bufio-16", func() (*banderwagon.Element, error) {
			// a buffered reader whose buffer (16 bytes, bufio's minimum) is smaller than one encoding
			return common.ReadPoint(bufio.NewReaderSize(bytes.NewReader(b), 16))
		}},
		{"ReadPoint/1byte", func() (*banderwagon.Element, error) {
			return common.ReadPoint(iotest.OneByteReader(bytes.NewReader(b)))
		}},
		{"ReadPoint/dataerr", func() (*banderwagon.Element, error) {
			return common.ReadPoint(iotest.DataErrReader(bytes.NewReader(b)))
		}},
		{"ReadPoint/nested-after-failed-reads", func() (*banderwagon.Element, error) {
			// history: reads that fail come first; then this stream is delivered in two chunks and, between them, the reader
			// itself decodes another complete stream (two calls overlap on one goroutine)
			c06failedReads(rng)
			nr := &nestReader{data: b, chunk: 1 + rng.Intn(31), at: 1, fn: func() { c06nestedReads(c, rng) }}
			return common.ReadPoint(nr)
		}},
	}
	for di, d := range decs {
		if di >= 2 && rng.Intn(4) != 0 {
			continue
		}
		wantErr := werr != nil
		var wantPt ref.Affine = want
		if !strings.HasPrefix(d.name, "SetBytes") && len(b) > 32 {
			// ReadPoint consumes exactly the first 32 bytes
			w2, e2 := ref.Deserialize(b[:32])
			wantErr, wantPt = e2 != nil, w2
		}
		var e *banderwagon.Element
		var err error
		if p, st := mon.Try(func() { e, err = d.f() }); p != nil {
			c.Fail("panic/"+d.name, fmt.Sprintf("%s panicked on %d-byte input %s: %v", d.name, len(b), hx(snap), p), map[string]string{"stack": st})
			continue
		}
		if !bytes.Equal(b, snap) {
			c.Fail("input-modified/"+d.name, d.name+" modified the input slice", nil)
			copy(b, snap)
		}
		switch {
		case wantErr && err == nil:
			c.Fail("accepted-invalid/"+d.name+"/"+verdict, fmt.Sprintf("%s accepted %s (%s) which the reference rejects: %s", d.name, hx(snap), cls, verdict), map[string]string{"input": hx(snap)})
		case !wantErr && err != nil:
			c.Fail("rejected-valid/"+d.name, fmt.Sprintf("%s rejected the valid encoding %s (%s): %v", d.name, hx(snap), cls, err), map[string]string{"input": hx(snap)})
		case wantErr:
			c.Count("rejected_expected_and_observed", 1)
			if cls == "alias-x+p" || cls == "alias-x+2p" {
				c.Count("alias_rejections", 1)
			}
		default:
			c.Count("accepted_expected_and_observed", 1)
			got, ok := ElemToRef(e)
			if !ok {
				c.Fail("decoded-degenerate/"+d.name, "decoded element has Z=0", nil)
				break
			}
			ga := got.Affine()
			// either member of the class is a correct decoding of the element
			if !ga.OnCurve() || !ref.ClassEqualAffine(ga, wantPt) {
				c.Fail("decoded-wrong-point/"+d.name, fmt.Sprintf("%s(%s) decodes to (%s,%s), reference (%s,%s)", d.name, hx(snap), ga.X.Text(16), ga.Y.Text(16), wantPt.X.Text(16), wantPt.Y.Text(16)), nil)
			}
			re := e.Bytes()
			if !bytes.Equal(re[:], snap[:32]) {
				c.Fail("reencode-differs/"+d.name, fmt.Sprintf("%s accepted %s but re-encodes to %s", d.name, hx(snap), hx(re[:])), nil)
			} else if c06keepN++; c06keepN%5 == 0 {
				// the caller keeps the decoded element: after many further decodings it must still encode to the same bytes
				kept, orig, name := e, re, d.name
				c06kept.Keep(c, name, func() string {
					if kept.Bytes() != orig {
						return "an element returned earlier by " + name + " no longer encodes to the bytes it was decoded from"
					}
					return ""
				})
			}
			if di == 0 && (cls != "random" || rng.Intn(40) == 0) && rng.Intn(4) == 0 {
				rp := ref.Mul(got, ref.R)
				if rp.X.Sign() != 0 || rp.Z.Sign() == 0 {
					c.Fail("order-not-dividing-r", "r*P is not the identity for the accepted input "+hx(snap), nil)
				}
				c.Count("order_checked_by_reference", 1)
			}
		}
		c.Eval(d.name+"|"+cls+"|"+verdict, len(b) == 32)
	}
}

func c06uncompressed(c *mon.Ctx, b []byte, cls string, rng *rand.Rand) {
	snap := append([]byte(nil), b...)
	want, werr := ref.DeserializeUncompressed(b)
	verdict := "accept"
	if werr != nil {
		verdict = werr.Error()[5:]
	}
	var e banderwagon.Element
	var err error
	if p, st := mon.Try(func() { err = e.SetBytesUncompressed(b, false) }); p != nil {
		c.Fail("panic/SetBytesUncompressed", fmt.Sprintf("SetBytesUncompressed panicked on %d-byte input: %v", len(b), p), map[string]string{"stack": st, "input": hx(snap)})
		return
	}
	if !bytes.Equal(b, snap) {
		c.Fail("input-modified/SetBytesUncompressed", "SetBytesUncompressed modified the input slice", nil)
	}
	switch {
	case werr != nil && err == nil:
		c.Fail("accepted-invalid/SetBytesUncompressed/"+verdict, fmt.Sprintf("SetBytesUncompressed(untrusted) accepted %s (%s) which the reference rejects: %s", hx(snap), cls, verdict), map[string]string{"input": hx(snap)})
	case werr == nil && err != nil:
		c.Fail("rejected-valid/SetBytesUncompressed", fmt.Sprintf("SetBytesUncompressed(untrusted) rejected the valid encoding %s: %v", hx(snap), err), map[string]string{"input": hx(snap)})
	case werr != nil:
		c.Count("rejected_expected_and_observed", 1)
		if cls == "u:x+p,y" || cls == "u:x,y+p" {
			c.Count("alias_rejections", 1)
		}
	default:
		c.Count("accepted_expected_and_observed", 1)
		got, ok := ElemToRef(&e)
		if !ok {
			c.Fail("decoded-degenerate/SetBytesUncompressed", "decoded element has Z=0", nil)
			break
		}
		ga := got.Affine()
		if !ga.OnCurve() || !ref.ClassEqualAffine(ga, want) {
			c.Fail("decoded-wrong-point/SetBytesUncompressed", "decoded element differs from the reference for "+hx(snap), nil)
		}
		re := e.BytesUncompressedTrusted()
		if !bytes.Equal(re[:], snap) {
			c.Fail("reencode-differs/SetBytesUncompressed", fmt.Sprintf("accepted %s but re-encodes to %s", hx(snap), hx(re[:])), nil)
		}
		if rng.Intn(6) == 0 {
			rp := ref.Mul(got, ref.R)
			if rp.X.Sign() != 0 || rp.Z.Sign() == 0 {
				c.Fail("order-not-dividing-r", "r*P is not the identity for the accepted input "+hx(snap), nil)
			}
			c.Count("order_checked_by_reference", 1)
		}
	}
	c.Eval("SetBytesUncompressed|"+cls+"|"+verdict, len(b) == 64)
}

func be32(v *big.Int) []byte { b := ref.BE32(v); return b[:] }

// c06nonSubgroupX finds an x on the curve but outside the Banderwagon subgroup.
func c06nonSubgroupX(rng *rand.Rand) *big.Int {
	for {
		x := randBig(rng, ref.P)
		if _, _, ok := ref.YFromX(x); ok && !ref.SubgroupCheck(x) {
			return x
		}
	}
}

func c06offCurveX(rng *rand.Rand) *big.Int {
	for {
		x := randBig(rng, ref.P)
		if _, _, ok := ref.YFromX(x); !ok {
			return x
		}
	}
}

func runC06(c *mon.Ctx) {
	defer debug.SetPanicOnFault(debug.SetPanicOnFault(true)) // writes to read-only inputs become panics
	runC06body(c)
	c.Case("retained-results", func() { c06kept.Flush(c) })
}

func runC06body(c *mon.Ctx) {
	// the very first decoding of the process (nothing has touched the library's decoders, tables or memos yet) is a
	// special encoding that differs per shard: the identity (32 zero bytes), the generator, an invalid string followed by
	// the identity, the identity in uncompressed form
	if c.Mine(2) {
		// x values that share their most significant limb(s) with the modulus (a canonicity test that looks at the top
		// limb only goes wrong here): p - k and top-limb(p)*2^192 + k for small k; the oracle says which are valid
		c.Case("x-sharing-top-limbs-with-p", func() {
			rng := c.Rand("top-limbs")
			top := new(big.Int).Lsh(new(big.Int).Rsh(ref.P, 192), 192)
			top2 := new(big.Int).Lsh(new(big.Int).Rsh(ref.P, 128), 128)
			for k := int64(0); k < 60; k++ {
				for _, x := range []*big.Int{new(big.Int).Add(top, big.NewInt(k)), new(big.Int).Add(top2, big.NewInt(k)), new(big.Int).Sub(ref.P, big.NewInt(k+1))} {
					c06compressed(c, be32(x), "x-shares-top-limb-with-p", rng)
				}
			}
		})
	}
	c.Case("first-decode-of-the-process", func() {
		rng := c.Rand("first-decode")
		zeros := make([]byte, 32)
		g := ref.Serialize(ref.Generator())
		switch c.Shard % 4 {
		case 0:
			c06firstIdentity(c)
			c06compressed(c, zeros, "first-decode:identity", rng)
		case 1:
			c06compressed(c, g[:], "first-decode:generator", rng)
			c06compressed(c, zeros, "second-decode:identity", rng)
		case 2:
			bad := be32(big.NewInt(2))
			c06compressed(c, bad, "first-decode:small-x", rng)
			c06firstIdentity(c)
		default:
			c06uncompressed(c, append(make([]byte, 32), be32(new(big.Int).Sub(ref.P, bigOne))...), "u:first-decode:identity(0,p-1)", rng)
			c06compressed(c, zeros, "second-decode:identity", rng)
		}
	})
	if c.Mine(0) {
		c.Case("y-adjacent-to-thresholds", func() {
			rng := c.Rand("thresholds")
			for _, x := range c17thresholdXs() {
				c06compressed(c, be32(x), "y-adjacent-to-threshold", rng)
				if yL, yS, ok := ref.YFromX(x); ok {
					c06uncompressed(c, append(be32(x), be32(yL)...), "u:y-adjacent-to-threshold,ylarge", rng)
					c06uncompressed(c, append(be32(x), be32(yS)...), "u:y-adjacent-to-threshold,ysmall", rng)
				}
			}
		})
	}
	pool := NewPool(c.Rand("pool"), 48)
	nb := c.Pick(96, 8000)
	for b := 0; b < nb; b++ {
		if !c.Mine(b) {
			continue
		}
		id := fmt.Sprintf("batch/%d", b)
		b := b
		c.Case(id, func() {
			rng := c.Rand(id)
			// random 32-byte strings
			for j := 0; j < c.Pick(150, 200); j++ {
				buf := make([]byte, 32)
				rng.Read(buf)
				if j%3 == 0 {
					buf[0] &= 0x7f // mostly below p
				}
				c06compressed(c, buf, "random", rng)
			}
			// targeted, built from valid points
			for j := 0; j < 12; j++ {
				pt := pool.P[rng.Intn(len(pool.P))]
				if j%4 == 0 {
					pt = ref.Mul(pt, randScalar(rng))
					if pt.X.Sign() == 0 {
						pt = ref.Generator()
					}
				}
				enc := ref.Serialize(pt)
				x := ref.FromBE(enc[:])
				c06compressed(c, enc[:], "valid", rng)
				c06compressed(c, be32(ref.NegP(x)), "valid-negated-x", rng)
				c06compressed(c, be32(new(big.Int).Add(x, ref.P)), "alias-x+p", rng)
				if x2 := new(big.Int).Add(x, new(big.Int).Lsh(ref.P, 1)); x2.BitLen() <= 256 {
					c06compressed(c, be32(x2), "alias-x+2p", rng)
				}
				fl := append([]byte(nil), enc[:]...)
				fl[rng.Intn(32)] ^= byte(1 << uint(rng.Intn(8)))
				c06compressed(c, fl, "bitflip-of-valid", rng)
				for _, L := range []int{0, 1, 31, 33, 63, 64, 65, rng.Intn(71)} {
					lb := make([]byte, L)
					copy(lb, enc[:])
					if L > 32 {
						rng.Read(lb[32:])
					}
					if L != 32 {
						c06compressed(c, lb, fmt.Sprintf("len%d", L), rng)
					}
				}
				c06compressed(c, be32(c06nonSubgroupX(rng)), "on-curve-non-subgroup", rng)
				c06compressed(c, be32(c06offCurveX(rng)), "off-curve", rng)

				// ---- uncompressed ----
				a := pt.Affine()
				yL, yS, _ := ref.YFromX(a.X)
				cat := func(x, y *big.Int) []byte { return append(be32(x), be32(y)...) }
				c06uncompressed(c, cat(a.X, yL), "u:x,ylarge", rng)
				c06uncompressed(c, cat(a.X, yS), "u:x,ysmall", rng)
				c06uncompressed(c, cat(ref.NegP(a.X), yL), "u:-x,ylarge", rng)
				c06uncompressed(c, cat(ref.NegP(a.X), yS), "u:-x,ysmall", rng)
				c06uncompressed(c, cat(new(big.Int).Add(a.X, ref.P), yL), "u:x+p,y", rng)
				if y2 := new(big.Int).Add(yL, ref.P); y2.BitLen() <= 256 {
					c06uncompressed(c, cat(a.X, y2), "u:x,y+p", rng)
				}
				c06uncompressed(c, cat(a.X, ref.AddP(yL, bigOne)), "u:x,y+1", rng)
				c06uncompressed(c, cat(a.X, randBig(rng, ref.P)), "u:x,random-y", rng)
				nx := c06nonSubgroupX(rng)
				nyL, nyS, _ := ref.YFromX(nx)
				c06uncompressed(c, cat(nx, nyL), "u:non-subgroup,ylarge", rng)
				c06uncompressed(c, cat(nx, nyS), "u:non-subgroup,ysmall", rng)
				c06uncompressed(c, cat(c06offCurveX(rng), randBig(rng, ref.P)), "u:off-curve", rng)
				rb := make([]byte, 64)
				rng.Read(rb)
				c06uncompressed(c, rb, "u:random", rng)
				for _, L := range []int{0, 32, 63, 65, 128} {
					lb := make([]byte, L)
					copy(lb, cat(a.X, yL))
					c06uncompressed(c, lb, fmt.Sprintf("u:len%d", L), rng)
				}
				if b == 0 && j == 1 {
					c.Sample(map[string]interface{}{"valid_encoding": hx(enc[:]), "alias_x_plus_p": hx(be32(new(big.Int).Add(x, ref.P))), "uncompressed": hx(cat(a.X, yL))})
				}
			}
			// x whose y^2 has a structured discrete logarithm in the 2^32 subgroup (low blocks zero, single blocks set ...)
			for j := 0; j < 10; j++ {
				D := uint32(rng.Intn(256)) << (8 * uint(rng.Intn(4)))
				if j%3 == 0 {
					D = (rng.Uint32() >> 16) << 16
				}
				if j%5 == 1 {
					D = uint32(1) << uint(1+(b+j)%31) // a single bit of the discrete logarithm: y^2 generates a 2-power subgroup exactly
				}
				if x := c17xFromY2(c17target(D&^1, rng)); x != nil {
					c06compressed(c, be32(x), "y2-dlog-structured", rng)
					if yL, _, ok := ref.YFromX(x); ok {
						c06uncompressed(c, append(be32(x), be32(yL)...), "u:y2-dlog-structured,ylarge", rng)
					}
				}
			}
			// x whose Montgomery representation is a small integer, and limb-structured x (the oracle decides what they are)
			for j := 0; j < 24; j++ {
				k := int64(1 + rng.Intn(5000))
				x := new(big.Int).Mod(new(big.Int).Mul(big.NewInt(k), rInvFp), ref.P)
				c06compressed(c, be32(x), "x-montgomery-small", rng)
				if yL, _, ok := ref.YFromX(x); ok {
					c06uncompressed(c, append(be32(x), be32(yL)...), "u:x-montgomery-small,ylarge", rng)
				}
				l := repLambdas[rng.Intn(len(repLambdas))]
				lx := new(big.Int).Mod(new(big.Int).Add(l, big.NewInt(int64(rng.Intn(64)))), ref.P)
				c06compressed(c, be32(lx), "x-limb-structured", rng)
			}
			// boundary values
			if b%8 == 0 {
				r := ref.R
				bvals := map[string]*big.Int{"0": big.NewInt(0), "1": big.NewInt(1), "2": big.NewInt(2), "p-1": new(big.Int).Sub(ref.P, bigOne), "p": ref.P, "p+1": new(big.Int).Add(ref.P, bigOne),
					"r-1": new(big.Int).Sub(r, bigOne), "r": r, "r+1": new(big.Int).Add(r, bigOne), "2^255": new(big.Int).Lsh(bigOne, 255), "2^256-1": new(big.Int).Sub(two256, bigOne), "2p": new(big.Int).Lsh(ref.P, 1)}
				for _, name := range sortedKeys(bvals) {
					v := bvals[name]
					c06compressed(c, be32(v), "boundary:"+name, rng)
					c06uncompressed(c, append(be32(v), be32(bigOne)...), "u:boundary:"+name+",1", rng)
					c06uncompressed(c, append(be32(v), be32(new(big.Int).Sub(ref.P, bigOne))...), "u:boundary:"+name+",p-1", rng)
				}
			}
		})
	}
}

// c06failedReads performs reads that must fail (their outcome is judged elsewhere: C16 for scalars, the other decoders here).
func c06failedReads(rng *rand.Rand) {
	for k := 0; k < 1+rng.Intn(2); k++ {
		switch rng.Intn(4) {
		case 0:
			nc := be32(new(big.Int).Add(ref.R, big.NewInt(int64(rng.Intn(5))))) // >= r
			for i, j := 0, 31; i < j; i, j = i+1, j-1 {
				nc[i], nc[j] = nc[j], nc[i]
			}
			mon.Try(func() { common.ReadScalar(bytes.NewReader(nc)) })
		case 1:
			mon.Try(func() { common.ReadScalar(bytes.NewReader(make([]byte, rng.Intn(32)))) })
		case 2:
			mon.Try(func() {
				common.ReadPoint(bytes.NewReader(be32(new(big.Int).Add(ref.P, big.NewInt(int64(rng.Intn(9)))))))
			})
		default:
			mon.Try(func() { common.ReadPoint(bytes.NewReader(make([]byte, rng.Intn(32)))) })
		}
	}
}

// c06nestedReads decodes the generator and a scalar from chunked streams and checks both results.
func c06nestedReads(c *mon.Ctx, rng *rand.Rand) {
	g := banderwagon.Generator.Bytes()
	p, err := common.ReadPoint(&nestReader{data: g[:], chunk: 1 + rng.Intn(31), at: -1})
	if err != nil || p == nil {
		c.Fail("rejected-valid/ReadPoint/nested", fmt.Sprintf("ReadPoint rejects the generator's encoding when called from inside another stream's reader: %v", err), nil)
	} else if pb := p.Bytes(); pb != g {
		c.Fail("decoded-wrong-point/ReadPoint/nested", "ReadPoint called from inside another stream's reader does not decode the generator's encoding to the generator", nil)
	}
	k := uint64(rng.Int63())
	var sc [32]byte
	for i := 0; i < 8; i++ {
		sc[i] = byte(k >> (8 * uint(i)))
	}
	s, err := common.ReadScalar(&nestReader{data: sc[:], chunk: 1 + rng.Intn(31), at: -1})
	if err != nil || s == nil || FrToBig(s).Cmp(new(big.Int).SetUint64(k)) != 0 {
		c.Fail("wrong-value/ReadScalar/nested", fmt.Sprintf("ReadScalar called from inside another stream's reader: err=%v", err), nil)
	}
	c.Count("nested_reads", 1)
}

var (
	c06kept  = Retainer{Cap: 80}
	c06keepN int
)

// c06firstIdentity decodes 32 zero bytes with SetBytes and looks at the element itself (not only at its class): it must
// be a valid representation of the identity, equal to Identity and to itself.
func c06firstIdentity(c *mon.Ctx) {
	var e banderwagon.Element
	if err := e.SetBytes(make([]byte, 32)); err != nil {
		c.Fail("rejected-valid/SetBytes/identity", "SetBytes rejects the identity's encoding: "+err.Error(), nil)
		return
	}
	X, Y, Z := e.VerifCoords()
	if !X.IsZero() || Y.IsZero() || Z.IsZero() {
		c.Fail("decoded-degenerate/SetBytes/identity", fmt.Sprintf("SetBytes(00..00) gives the coordinates (%s, %s, %s), not a representation of the identity", FpToBig(&X).Text(16), FpToBig(&Y).Text(16), FpToBig(&Z).Text(16)), nil)
	}
	if !e.Equal(&banderwagon.Identity) || !e.Equal(&e) {
		c.Fail("decoded-identity-not-equal", "the element decoded from the identity's encoding is not Equal to Identity / to itself", nil)
	}
	c.Count("identity_decoded_first", 1)
}
