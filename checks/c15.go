package checks

import (
	"fmt"
	"math/big"
	"math/rand"

	"github.com/crate-crypto/go-ipa/bandersnatch/fr"

	"verif/mon"
	"verif/ref"
)

func init() {
	register(&Check{
		ID:    "C15",
		Title: "Scalar-field arithmetic agrees with integer arithmetic modulo r",
		Rule: "operands: the per-limb cross product of {0,1,2^63,2^64-1,q_i-1,q_i,q_i+1} taken as raw Montgomery limbs (reduced mod r), values within 2 of 0, r/2, r, R, R^2, and seeded random values; " +
			"every operation on every value (unary) and on a tier-sized cross product (binary), through the assembly path, the assembly path with ADX switched off, and the portable generic functions; " +
			"a class is (operation, code path, operand category pair); non-trivial = operands not both in {0,1}",
		Technique:        "reference-model monitor (math/big) on every call + guard words around operands of the assembly routines + cross-path comparison",
		MinEvals:         map[string]int64{"quick": 500000, "thorough": 20000000},
		MinClasses:       map[string]int64{"quick": 60, "thorough": 60},
		RequiredCounters: []string{"guard_checks", "path.asm", "path.generic", "path.noadx-flag", "path.noadx-build"},
		Assumptions: []string{
			"math/big is the oracle for integers modulo r",
			"only amd64 with ADX exists here: the non-ADX and portable paths are forced by flag, build tag and hook on this CPU",
			"guard words detect writes of the assembly routines next to their operands; neither the race detector nor checkptr sees inside .s files",
		},
		Plan: func(tier string) []Child {
			n := pick(tier, 6, 15)
			out := shardsVar(n, Child{Flavour: "plain", NCPU: 1, Params: map[string]string{"path": "all"}})
			out = append(out, Child{Flavour: "noadx", NCPU: 1, Shard: 0, NShards: 1, Params: map[string]string{"path": "noadx-build"}})
			out = append(out, Child{Flavour: "amd64adx", NCPU: 1, Shard: 2 % n, NShards: n, Params: map[string]string{"path": "all"}})
			return plus386(out, 1)
		},
		Run: runC15,
	})
}

type c15val struct {
	e   fr.Element
	v   *big.Int // regular value
	cat string   // limb | edge | rand | tiny
}

var qLimbs = [4]uint64{8429901452645165025, 18415085837358793841, 922804724659942912, 2088379214866112338}

func c15values(rng *rand.Rand, nLimb, nRand int) []c15val {
	var out []c15val
	add := func(raw *big.Int, cat string) {
		raw = new(big.Int).Mod(raw, ref.R)
		e := fr.Element(limbs(raw))
		out = append(out, c15val{e: e, v: FrToBig(&e), cat: cat})
	}
	addReg := func(v *big.Int, cat string) {
		e := FrFromBig(v)
		out = append(out, c15val{e: e, v: new(big.Int).Mod(v, ref.R), cat: cat})
	}
	// regular-value edges
	r := ref.R
	half := new(big.Int).Rsh(r, 1)
	for d := int64(-2); d <= 2; d++ {
		cat := "edge"
		if d >= 0 && d <= 1 {
			cat = "tiny"
		}
		addReg(new(big.Int).Add(new(big.Int), big.NewInt(d)), cat)
		addReg(new(big.Int).Add(half, big.NewInt(d)), "edge")
		addReg(new(big.Int).Add(new(big.Int).Mod(two256, r), big.NewInt(d)), "edge")
		addReg(new(big.Int).Add(new(big.Int).Mod(new(big.Int).Mul(two256, two256), r), big.NewInt(d)), "edge")
	}
	// small and power-of-two regular values (their Montgomery limbs are "random", their regular limbs structured)
	for _, k := range []int64{3, 5, 13, 255, 256, 65535, 65536, 1 << 32, 1<<62 + 1} {
		addReg(big.NewInt(k), "edge")
	}
	for _, sh := range []uint{63, 64, 65, 127, 128, 129, 191, 192, 193, 252} {
		v := new(big.Int).Lsh(big.NewInt(1), sh)
		addReg(v, "edge")
		addReg(new(big.Int).Sub(v, big.NewInt(1)), "edge")
	}
	for _, v := range limbNeighbours(r, rng) {
		addReg(v, "edge") // regular value agrees with r in some limbs (reduced mod r when above)
	}
	for _, v := range limbNeighbours(new(big.Int).Rsh(r, 1), rng) {
		addReg(v, "edge")
	}
	// raw-limb edges: also tiny raw limbs
	for d := int64(0); d <= 2; d++ {
		add(big.NewInt(d), "edge")
		add(new(big.Int).Sub(r, big.NewInt(d+1)), "edge")
	}
	// per-limb cross product
	var pats [][4]uint64
	for a := 0; a < 7; a++ {
		for b := 0; b < 7; b++ {
			for cc := 0; cc < 7; cc++ {
				for d := 0; d < 7; d++ {
					idx := [4]int{a, b, cc, d}
					var l [4]uint64
					for i := 0; i < 4; i++ {
						switch idx[i] {
						case 0:
							l[i] = 0
						case 1:
							l[i] = 1
						case 2:
							l[i] = 1 << 63
						case 3:
							l[i] = ^uint64(0)
						case 4:
							l[i] = qLimbs[i] - 1
						case 5:
							l[i] = qLimbs[i]
						case 6:
							l[i] = qLimbs[i] + 1
						}
					}
					pats = append(pats, l)
				}
			}
		}
	}
	if nLimb >= len(pats) {
		for _, l := range pats {
			add(fromLimbs(l), "limb")
		}
	} else {
		// seed-determined subset that always keeps the all-equal-index patterns
		perm := rng.Perm(len(pats))
		for i := 0; i < nLimb; i++ {
			add(fromLimbs(pats[perm[i]]), "limb")
		}
		for a := 0; a < 7; a++ {
			add(fromLimbs(pats[a*(343+49+7+1)]), "limb")
		}
	}
	for i := 0; i < nRand; i++ {
		addReg(randBig(rng, r), "rand")
	}
	return out
}

type c15guarded struct {
	pre  [2]uint64
	e    fr.Element
	post [2]uint64
}

const c15canary = 0xA5A5F00DCAFE1234

type c15ops struct {
	name     string
	mul      func(z, x, y *fr.Element)
	add      func(z, x, y *fr.Element)
	sub      func(z, x, y *fr.Element)
	neg      func(z, x *fr.Element)
	dbl      func(z, x *fr.Element)
	fromMont func(z *fr.Element)
	bfly     func(a, b *fr.Element)
}

func c15api() c15ops {
	return c15ops{
		mul:      func(z, x, y *fr.Element) { z.Mul(x, y) },
		add:      func(z, x, y *fr.Element) { z.Add(x, y) },
		sub:      func(z, x, y *fr.Element) { z.Sub(x, y) },
		neg:      func(z, x *fr.Element) { z.Neg(x) },
		dbl:      func(z, x *fr.Element) { z.Double(x) },
		fromMont: func(z *fr.Element) { z.FromMont() },
		bfly:     func(a, b *fr.Element) { fr.Butterfly(a, b) },
	}
}

func c15generic() c15ops {
	return c15ops{
		name: "generic",
		mul:  fr.VerifMulGeneric, add: fr.VerifAddGeneric, sub: fr.VerifSubGeneric,
		neg: fr.VerifNegGeneric, dbl: fr.VerifDoubleGeneric, fromMont: fr.VerifFromMontGeneric, bfly: fr.VerifButterflyGeneric,
	}
}

type c15mon struct {
	c     *mon.Ctx
	path  string
	g     [3]c15guarded
	cache map[[3]string]string
}

func (m *c15mon) cls(op, a, b string) string {
	k := [3]string{op, a, b}
	if s, ok := m.cache[k]; ok {
		return s
	}
	if m.cache == nil {
		m.cache = map[[3]string]string{}
	}
	s := op + "|" + m.path + "|" + a + "," + b
	m.cache[k] = s
	return s
}

func (m *c15mon) arm() {
	for i := range m.g {
		m.g[i].pre = [2]uint64{c15canary, ^uint64(c15canary)}
		m.g[i].post = [2]uint64{^uint64(c15canary), c15canary}
	}
}

func (m *c15mon) guardsOK(op string) {
	for i := range m.g {
		if m.g[i].pre != [2]uint64{c15canary, ^uint64(c15canary)} || m.g[i].post != [2]uint64{^uint64(c15canary), c15canary} {
			m.c.Fail("guard-word/"+op, fmt.Sprintf("%s [%s] wrote outside its operands", op, m.path), nil)
			m.arm()
		}
	}
	m.c.Count("guard_checks", 1)
}

func (m *c15mon) expect(op string, got *fr.Element, want *big.Int, x, y *c15val) {
	if !FrRawReduced(got) {
		m.c.Fail("not-reduced/"+op, fmt.Sprintf("%s [%s] result limbs %v are not < r", op, m.path, *got), c15detail(x, y))
		return
	}
	if FrToBig(got).Cmp(want) != 0 {
		m.c.Fail("wrong-value/"+op, fmt.Sprintf("%s [%s]: got %s want %s", op, m.path, FrToBig(got).Text(16), want.Text(16)), c15detail(x, y))
	}
}

func c15detail(x, y *c15val) map[string]string {
	d := map[string]string{}
	if x != nil {
		d["x"] = x.v.Text(16)
		d["x_limbs"] = fmt.Sprint(x.e)
	}
	if y != nil {
		d["y"] = y.v.Text(16)
		d["y_limbs"] = fmt.Sprint(y.e)
	}
	return d
}

// binary runs Add, Sub, Mul (+aliasing variants, Butterfly, Div on a subset) for one pair through ops.
func (m *c15mon) binary(ops c15ops, x, y *c15val, heavy bool) {
	c := m.c
	nt := !(x.cat == "tiny" && y.cat == "tiny")
	cls := func(op string) string { return m.cls(op, x.cat, y.cat) }
	gx, gy, gz := &m.g[0].e, &m.g[1].e, &m.g[2].e
	// Mul
	*gx, *gy = x.e, y.e
	ops.mul(gz, gx, gy)
	wantMul := ref.MulR(x.v, y.v)
	m.expect("Mul", gz, wantMul, x, y)
	if *gx != x.e || *gy != y.e {
		c.Fail("operand-modified/Mul", "Mul ["+m.path+"] changed an operand", c15detail(x, y))
	}
	zMul := *gz
	// Add
	ops.add(gz, gx, gy)
	m.expect("Add", gz, ref.AddR(x.v, y.v), x, y)
	zAdd := *gz
	// Sub
	ops.sub(gz, gx, gy)
	m.expect("Sub", gz, ref.SubR(x.v, y.v), x, y)
	zSub := *gz
	// aliasing: z = x
	*gx = x.e
	ops.mul(gx, gx, gy)
	if *gx != zMul {
		c.Fail("alias/Mul", "Mul ["+m.path+"] with receiver aliasing x differs", c15detail(x, y))
	}
	*gx = x.e
	ops.add(gx, gx, gy)
	if *gx != zAdd {
		c.Fail("alias/Add", "Add ["+m.path+"] with receiver aliasing x differs", c15detail(x, y))
	}
	*gx = x.e
	ops.sub(gx, gx, gy)
	if *gx != zSub {
		c.Fail("alias/Sub", "Sub ["+m.path+"] with receiver aliasing x differs", c15detail(x, y))
	}
	// aliasing: z = y
	*gx = x.e
	ops.mul(gy, gx, gy)
	if *gy != zMul {
		c.Fail("alias/Mul", "Mul ["+m.path+"] with receiver aliasing y differs", c15detail(x, y))
	}
	*gy = y.e
	ops.sub(gy, gx, gy)
	if *gy != zSub {
		c.Fail("alias/Sub", "Sub ["+m.path+"] with receiver aliasing y differs", c15detail(x, y))
	}
	*gy = y.e
	ops.add(gy, gx, gy)
	if *gy != zAdd {
		c.Fail("alias/Add", "Add ["+m.path+"] with receiver aliasing y differs", c15detail(x, y))
	}
	// Butterfly
	*gx, *gy = x.e, y.e
	ops.bfly(gx, gy)
	if *gx != zAdd || *gy != zSub {
		c.Fail("wrong-value/Butterfly", "Butterfly ["+m.path+"] != (a+b, a-b)", c15detail(x, y))
	}
	c.EvalN(cls("Mul+Add+Sub+6alias+Butterfly"), 10, nt)
	m.guardsOK("binary")
	if heavy && ops.name == "" {
		// Div and Cmp through the API (independent of the back end selection)
		var z fr.Element
		z.Div(&x.e, &y.e)
		m.expect("Div", &z, ref.MulR(x.v, ref.InvR(y.v)), x, y)
		xe, ye := x.e, y.e
		if got, want := xe.Cmp(&ye), x.v.Cmp(y.v); got != want {
			c.Fail("wrong-value/Cmp", fmt.Sprintf("Cmp [%s] = %d want %d", m.path, got, want), c15detail(x, y))
		}
		if got, want := xe.Equal(&ye), x.v.Cmp(y.v) == 0; got != want {
			c.Fail("wrong-value/Equal", fmt.Sprintf("Equal [%s] = %v want %v", m.path, got, want), c15detail(x, y))
		}
		c.EvalN(cls("Div+Cmp+Equal"), 3, nt)
	}
}

var c15exps []*big.Int

func (m *c15mon) unary(ops c15ops, x *c15val) {
	c := m.c
	nt := x.cat != "tiny"
	cls := func(op string) string { return op + "|" + m.path + "|" + x.cat }
	gx, gz := &m.g[0].e, &m.g[2].e
	*gx = x.e
	ops.neg(gz, gx)
	m.expect("Neg", gz, ref.NegR(x.v), x, nil)
	ops.dbl(gz, gx)
	m.expect("Double", gz, ref.AddR(x.v, x.v), x, nil)
	ops.mul(gz, gx, gx)
	m.expect("Square(x,x)", gz, ref.MulR(x.v, x.v), x, nil)
	sq := *gz
	// all three aliased
	ops.mul(gx, gx, gx)
	if *gx != sq {
		c.Fail("alias/Mul", "Mul ["+m.path+"] z=x=y differs", c15detail(x, nil))
	}
	*gx = x.e
	ops.add(gx, gx, gx)
	m.expect("Add(x,x,x)", gx, ref.AddR(x.v, x.v), x, nil)
	*gx = x.e
	ops.sub(gx, gx, gx)
	m.expect("Sub(x,x,x)", gx, new(big.Int), x, nil)
	*gx = x.e
	ops.neg(gx, gx)
	m.expect("Neg(x,x)", gx, ref.NegR(x.v), x, nil)
	*gx = x.e
	ops.dbl(gx, gx)
	m.expect("Double(x,x)", gx, ref.AddR(x.v, x.v), x, nil)
	// FromMont: raw limbs become the regular value
	*gx = x.e
	ops.fromMont(gx)
	if fromLimbs([4]uint64(*gx)).Cmp(x.v) != 0 {
		c.Fail("wrong-value/FromMont", "FromMont ["+m.path+"] raw limbs != regular value", c15detail(x, nil))
	}
	// x + (-x) must be exactly 0 (the sum of the raw limbs is exactly q)
	nx := FrFromBig(ref.NegR(x.v))
	*gx = x.e
	m.g[1].e = nx
	ops.add(gz, gx, &m.g[1].e)
	m.expect("Add(x,-x)", gz, new(big.Int), x, nil)
	ops.sub(gz, gx, gx)
	m.expect("Sub(x,x)", gz, new(big.Int), x, nil)
	c.EvalN(cls("unary-backend"), 11, nt)
	m.guardsOK("unary")
	if ops.name != "" {
		return
	}
	// ---- API-level operations ----
	var z fr.Element
	z.Square(&x.e)
	m.expect("Square", &z, ref.MulR(x.v, x.v), x, nil)
	z = x.e
	z.Square(&z)
	m.expect("Square(alias)", &z, ref.MulR(x.v, x.v), x, nil)
	z = x.e
	z.Div(&z, &z)
	wantOne := big.NewInt(1)
	if x.v.Sign() == 0 {
		wantOne = new(big.Int)
	}
	m.expect("Div(z,z,z)", &z, wantOne, x, nil)
	z = x.e
	z.Exp(z, big.NewInt(3))
	m.expect("Exp(alias)", &z, new(big.Int).Exp(x.v, big.NewInt(3), ref.R), x, nil)
	z = x.e
	if rt := z.Sqrt(&z); rt != nil {
		rv := FrToBig(rt)
		if ref.MulR(rv, rv).Cmp(x.v) != 0 {
			c.Fail("alias/Sqrt", "Sqrt with the receiver aliasing the argument returned a wrong root", c15detail(x, nil))
		}
	} else if big.Jacobi(x.v, ref.R) != -1 {
		c.Fail("alias/Sqrt", "Sqrt with the receiver aliasing the argument returned nil for a square", c15detail(x, nil))
	}
	z.Inverse(&x.e)
	m.expect("Inverse", &z, ref.InvR(x.v), x, nil)
	z = x.e
	z.Inverse(&z)
	m.expect("Inverse(alias)", &z, ref.InvR(x.v), x, nil)
	for _, k := range []int64{3, 5, 13} {
		z = x.e
		switch k {
		case 3:
			fr.MulBy3(&z)
		case 5:
			fr.MulBy5(&z)
		case 13:
			fr.MulBy13(&z)
		}
		m.expect(fmt.Sprintf("MulBy%d", k), &z, ref.MulR(x.v, big.NewInt(k)), x, nil)
	}
	for _, k := range []uint8{0, 1, 2, 3, 4, 5, 7, 13, 255} {
		z = x.e
		fr.VerifMulByConstant(&z, k)
		m.expect(fmt.Sprintf("mulByConstant(%d)", k), &z, ref.MulR(x.v, big.NewInt(int64(k))), x, nil)
	}
	// Montgomery conversions
	z = x.e
	z.FromMont()
	z.ToMont()
	if z != x.e {
		c.Fail("wrong-value/ToMont", "ToMont(FromMont(x)) != x ["+m.path+"]", c15detail(x, nil))
	}
	reg := x.e.ToRegular()
	if fromLimbs([4]uint64(reg)).Cmp(x.v) != 0 {
		c.Fail("wrong-value/ToRegular", "ToRegular ["+m.path+"]", c15detail(x, nil))
	}
	var bi big.Int
	x.e.ToBigIntRegular(&bi)
	if bi.Cmp(x.v) != 0 {
		c.Fail("wrong-value/ToBigIntRegular", "ToBigIntRegular ["+m.path+"]", c15detail(x, nil))
	}
	// reduce on [0, 2r)
	for _, addR := range []bool{false, true} {
		raw := fromLimbs([4]uint64(x.e))
		if addR {
			raw.Add(raw, ref.R)
		}
		z = fr.Element(limbs(raw))
		fr.VerifReduce(&z)
		z2 := fr.Element(limbs(raw))
		fr.VerifReduceGeneric(&z2)
		want := new(big.Int).Mod(raw, ref.R)
		if fromLimbs([4]uint64(z)).Cmp(want) != 0 || fromLimbs([4]uint64(z2)).Cmp(want) != 0 {
			c.Fail("wrong-value/reduce", "reduce ["+m.path+"] of a value in [0,2r)", c15detail(x, nil))
		}
	}
	// predicates
	xe := x.e
	if xe.IsZero() != (x.v.Sign() == 0) {
		c.Fail("wrong-value/IsZero", "IsZero", c15detail(x, nil))
	}
	if got, want := xe.LexicographicallyLargest(), x.v.Cmp(new(big.Int).Rsh(ref.R, 1)) > 0; got != want {
		c.Fail("wrong-value/LexicographicallyLargest", fmt.Sprintf("LexicographicallyLargest [%s] = %v want %v", m.path, got, want), c15detail(x, nil))
	}
	raw := fromLimbs([4]uint64(xe))
	if xe.BitLen() != raw.BitLen() {
		c.Fail("wrong-value/BitLen", "BitLen", c15detail(x, nil))
	}
	for _, i := range []uint64{0, 1, 63, 64, 127, 128, 191, 192, 252, 255, 256, 300} {
		if xe.Bit(i) != uint64(raw.Bit(int(i))) {
			c.Fail("wrong-value/Bit", fmt.Sprintf("Bit(%d)", i), c15detail(x, nil))
		}
	}
	// Legendre / Sqrt
	jac := big.Jacobi(x.v, ref.R)
	if got := xe.Legendre(); got != jac {
		c.Fail("wrong-value/Legendre", fmt.Sprintf("Legendre [%s] = %d want %d", m.path, got, jac), c15detail(x, nil))
	}
	z.SetUint64(77)
	keep := z
	rt := z.Sqrt(&xe)
	switch {
	case jac == -1:
		if rt != nil {
			c.Fail("sqrt-of-non-residue", "Sqrt ["+m.path+"] returned a root of a non-residue", c15detail(x, nil))
		} else if z != keep {
			c.Fail("sqrt-modified-receiver", "Sqrt ["+m.path+"] returned nil but changed the receiver", c15detail(x, nil))
		}
	default:
		if rt == nil {
			c.Fail("sqrt-nil-for-residue", "Sqrt ["+m.path+"] returned nil for a square", c15detail(x, nil))
		} else {
			rv := FrToBig(rt)
			if !FrRawReduced(rt) || ref.MulR(rv, rv).Cmp(x.v) != 0 {
				c.Fail("wrong-value/Sqrt", "Sqrt ["+m.path+"]: root^2 != x", c15detail(x, nil))
			}
		}
	}
	if xe != x.e {
		c.Fail("operand-modified/unary", "a unary operation changed its operand", c15detail(x, nil))
	}
	// Exp
	for _, e := range c15exps {
		z.Exp(x.e, e)
		m.expect("Exp", &z, new(big.Int).Exp(x.v, e, ref.R), x, nil)
	}
	// SetUint64 / String round trip
	if x.v.IsUint64() {
		z.SetUint64(x.v.Uint64())
		m.expect("SetUint64", &z, x.v, x, nil)
	}
	var back fr.Element
	back.SetString(xe.String())
	m.expect("SetString(String)", &back, x.v, x, nil)
	// the setters on a receiver that already holds a full-width value (every limb non-zero): the old contents must be gone
	dirty := fr.Element{0xffffffffffffffff, 0xfffffffffffffffe, 0xfffffffffffffffd, 0x0fffffffffffffff}
	for _, st := range []struct {
		name string
		f    func(r *fr.Element)
	}{
		{"SetBigInt/used-receiver", func(r *fr.Element) { r.SetBigInt(x.v) }},
		{"SetBigInt(v+r)/used-receiver", func(r *fr.Element) { r.SetBigInt(new(big.Int).Add(x.v, ref.R)) }},
		{"SetString/used-receiver", func(r *fr.Element) { r.SetString(x.v.String()) }},
		{"SetBytes/used-receiver", func(r *fr.Element) { r.SetBytes(x.v.Bytes()) }},
		{"SetBytesLE/used-receiver", func(r *fr.Element) { b := ref.LE32(x.v); r.SetBytesLE(b[:]) }},
		{"SetInterface/used-receiver", func(r *fr.Element) { r.SetInterface(x.v) }},
		{"Set/used-receiver", func(r *fr.Element) { r.Set(&xe) }},
	} {
		r := dirty
		st.f(&r)
		m.expect(st.name, &r, x.v, x, nil)
	}
	c.EvalN(cls("unary-api"), int64(37+len(c15exps)), nt)
}

func (m *c15mon) batchInvert(rng *rand.Rand, vals []c15val) {
	c := m.c
	for n := 0; n <= 64; n++ {
		for variant := 0; variant < 3; variant++ {
			in := make([]fr.Element, n)
			want := make([]*big.Int, n)
			zeros := 0
			for i := range in {
				v := &vals[rng.Intn(len(vals))]
				isZero := false
				switch variant {
				case 0: // no zeros unless the value happens to be zero
				case 1: // one zero at position n-th variant
					isZero = i == n/2 || i == 0 || i == n-1
				case 2:
					isZero = rng.Intn(2) == 0
				}
				if n > 0 && variant == 2 && n%7 == 0 {
					isZero = true // all zeros
				}
				if isZero {
					in[i] = fr.Element{}
					want[i] = new(big.Int)
				} else {
					in[i] = v.e
					want[i] = ref.InvR(v.v)
				}
				if want[i].Sign() == 0 {
					zeros++
				}
			}
			snap := append([]fr.Element(nil), in...)
			out := fr.BatchInvert(in)
			if len(out) != n {
				c.Fail("wrong-length/BatchInvert", fmt.Sprintf("BatchInvert of %d returned %d", n, len(out)), nil)
				continue
			}
			// the result is the caller's: modifying it must not influence a second call
			if n > 0 && variant == 0 {
				out2 := fr.BatchInvert(in)
				for i := range out {
					out[i].SetUint64(0xBAD)
				}
				out3 := fr.BatchInvert(in)
				for i := range out3 {
					if out3[i] != out2[i] {
						c.Fail("result-aliases-internal-state/BatchInvert", "BatchInvert returns a different slice content after the caller modified an earlier result", nil)
						break
					}
				}
				out = out3
			}
			for i := range out {
				if in[i] != snap[i] {
					c.Fail("operand-modified/BatchInvert", "BatchInvert changed its input", nil)
					break
				}
				if !FrRawReduced(&out[i]) || FrToBig(&out[i]).Cmp(want[i]) != 0 {
					c.Fail("wrong-value/BatchInvert", fmt.Sprintf("BatchInvert [%s] n=%d position %d (zeros=%d)", m.path, n, i, zeros), nil)
					break
				}
			}
			zc := "nozero"
			if zeros == n && n > 0 {
				zc = "allzero"
			} else if zeros > 0 {
				zc = "somezero"
			}
			lc := "n>8"
			if n <= 1 {
				lc = fmt.Sprintf("n=%d", n)
			} else if n <= 8 {
				lc = "n2-8"
			}
			c.Eval("BatchInvert|"+m.path+"|"+lc+"|"+zc, n > 0)
		}
	}
}

func runC15(c *mon.Ctx) {
	r := ref.R
	c15exps = []*big.Int{big.NewInt(0), big.NewInt(1), big.NewInt(2), new(big.Int).Rsh(new(big.Int).Sub(r, bigOne), 1),
		new(big.Int).Sub(r, big.NewInt(2)), new(big.Int).Sub(r, bigOne), r, new(big.Int).Lsh(bigOne, 255), new(big.Int).Sub(two256, bigOne)}
	rngV := c.Rand("values")
	c15exps = append(c15exps, randBig(rngV, two256), randBig(rngV, new(big.Int).Lsh(bigOne, 64)),
		new(big.Int).Lsh(bigOne, 64), new(big.Int).Sub(new(big.Int).Lsh(bigOne, 64), bigOne), new(big.Int).Add(new(big.Int).Lsh(bigOne, 128), bigOne), big.NewInt(65537))
	rm1 := new(big.Int).Sub(r, bigOne)
	c15exps = append(c15exps, new(big.Int).Lsh(rm1, 1), new(big.Int).Mul(rm1, big.NewInt(5)), new(big.Int).Lsh(rm1, 200), new(big.Int).Lsh(r, 1), new(big.Int).Mul(r, rm1),
		new(big.Int).Add(new(big.Int).Lsh(bigOne, 300), bigOne), new(big.Int).Add(new(big.Int).Lsh(rm1, 1), bigOne), new(big.Int).Sub(new(big.Int).Lsh(rm1, 1), bigOne))

	noadxBuild := c.Config["path"] == "noadx-build"
	if noadxBuild && fr.VerifSupportAdx() {
		c.Note("noadx flavour has supportAdx=true: build tag not effective")
		return
	}
	if !noadxBuild && !fr.VerifSupportAdx() {
		c.Note("this CPU has no ADX: the ADX path cannot be observed")
	}
	nLimb := c.Pick(800, 2401)
	nRand := c.Pick(60, 600)
	if noadxBuild {
		nLimb, nRand = c.Pick(200, 500), 30
	}
	vals := c15values(rngV, nLimb, nRand)
	c.Sample(map[string]interface{}{"values": len(vals), "example_raw_limbs": fmt.Sprint(vals[len(vals)/2].e), "example_value": vals[len(vals)/2].v.Text(16)})

	type pathDef struct {
		name string
		ops  c15ops
		adx  int // -1 leave, 0 force off, 1 force on
	}
	var paths []pathDef
	if noadxBuild {
		paths = []pathDef{{"noadx-build", c15api(), -1}}
	} else {
		paths = []pathDef{{"asm", c15api(), 1}, {"generic", c15generic(), -1}, {"noadx-flag", c15api(), 0}}
	}
	orig := fr.VerifSupportAdx()
	defer fr.VerifSetSupportAdx(orig)

	for _, pd := range paths {
		pd := pd
		switch pd.adx {
		case 0:
			fr.VerifSetSupportAdx(false)
		case 1:
			fr.VerifSetSupportAdx(orig)
		}
		m := &c15mon{c: c, path: pd.name}
		m.arm()
		c.Count("path."+pd.name, 1)
		// unary on every value (sharded)
		const ub = 100
		for b := 0; b*ub < len(vals); b++ {
			if !c.Mine(b) {
				continue
			}
			id := fmt.Sprintf("%s/unary/%d", pd.name, b)
			c.Case(id, func() {
				for i := b * ub; i < (b+1)*ub && i < len(vals); i++ {
					m.unary(pd.ops, &vals[i])
				}
			})
		}
		// binary cross product, rows sharded
		for i := range vals {
			if !c.Mine(i) {
				continue
			}
			i := i
			id := fmt.Sprintf("%s/binary/row%d", pd.name, i)
			c.Case(id, func() {
				for j := range vals {
					m.binary(pd.ops, &vals[i], &vals[j], (i+j)%16 == 0)
				}
			})
		}
		if pd.ops.name == "" && c.Mine(0) {
			id := pd.name + "/batchinvert"
			c.Case(id, func() { m.batchInvert(c.Rand(id), vals) })
		}
		fr.VerifSetSupportAdx(orig)
	}
	// cross-path: asm result == generic result is implied by both matching the oracle.
}
