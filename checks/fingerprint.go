package checks

import (
	"fmt"
	"hash/fnv"

	multiproof "github.com/crate-crypto/go-ipa"
	"github.com/crate-crypto/go-ipa/bandersnatch"
	"github.com/crate-crypto/go-ipa/bandersnatch/fp"
	"github.com/crate-crypto/go-ipa/bandersnatch/fr"
	"github.com/crate-crypto/go-ipa/banderwagon"
	"github.com/crate-crypto/go-ipa/ipa"
)

// mix64 is a fast non-cryptographic accumulator for large tables.
type mix64 struct{ h uint64 }

func (m *mix64) add(w uint64) {
	m.h ^= w
	m.h *= 0x9E3779B97F4A7C15
	m.h ^= m.h >> 29
}

func (m *mix64) fp(e *fp.Element) {
	for _, w := range e {
		m.add(w)
	}
}

func (m *mix64) fr(e *fr.Element) {
	for _, w := range e {
		m.add(w)
	}
}

func (m *mix64) elem(e *banderwagon.Element) {
	X, Y, Z := e.VerifCoords()
	m.fp(&X)
	m.fp(&Y)
	m.fp(&Z)
}

func (m *mix64) bytes(b []byte) {
	h := fnv.New64a()
	h.Write(b)
	m.add(h.Sum64())
	m.add(uint64(len(b)))
}

// cheapFingerprint covers everything shared except the 350 MB MSM tables:
// SRS, Q, weight tables, labels, package-level constants, curve parameters,
// square-root tables (digest), the in-domain boundary.
func cheapFingerprint(conf *ipa.IPAConfig) string {
	var m mix64
	for i := range conf.SRS {
		m.elem(&conf.SRS[i])
	}
	m.add(uint64(len(conf.SRS)))
	m.elem(&conf.Q)
	bw, inv := conf.PrecomputedWeights.VerifTables()
	for i := range bw {
		m.fr(&bw[i])
	}
	for i := range inv {
		m.fr(&inv[i])
	}
	m.add(uint64(conf.VerifNumRounds()))
	for _, l := range ipa.VerifLabels() {
		m.bytes(l)
		m.add(uint64(cap(l)))
	}
	for _, l := range multiproof.VerifLabels() {
		m.bytes(l)
		m.add(uint64(cap(l)))
	}
	m.elem(&banderwagon.Generator)
	m.elem(&banderwagon.Identity)
	m.fp(&bandersnatch.Identity.X)
	m.fp(&bandersnatch.Identity.Y)
	m.fp(&bandersnatch.Identity.Z)
	m.fp(&bandersnatch.IdentityExt.X)
	m.fp(&bandersnatch.IdentityExt.Y)
	m.fp(&bandersnatch.IdentityExt.Z)
	m.fp(&bandersnatch.IdentityExt.T)
	m.fp(&bandersnatch.CurveParams.A)
	m.fp(&bandersnatch.CurveParams.D)
	m.fp(&bandersnatch.CurveParams.Base.X)
	m.fp(&bandersnatch.CurveParams.Base.Y)
	m.bytes(bandersnatch.CurveParams.Order.Bytes())
	m.fp(&bandersnatch.CurveParams.Cofactor)
	d := fp.VerifSqrtTablesDigest()
	m.bytes(d[:])
	mx := ipa.VerifMaxEvalPointInsideDomain()
	m.fr(&mx)
	m.bytes(fr.Modulus().Bytes())
	one := fr.One()
	m.fr(&one)
	return fmt.Sprintf("%016x", m.h)
}

// tableFingerprint covers all entries of the live precomputed MSM tables.
func tableFingerprint(conf *ipa.IPAConfig) string {
	var m mix64
	for i := 0; i < 256; i++ {
		w, wins := conf.PrecompMSM.VerifTable(i)
		m.add(uint64(w))
		m.add(uint64(len(wins)))
		for k := range wins {
			win := wins[k]
			m.add(uint64(len(win)))
			for j := range win {
				m.fp(&win[j].X)
				m.fp(&win[j].Y)
				m.fp(&win[j].T)
			}
		}
	}
	return fmt.Sprintf("%016x", m.h)
}
